"""Shared machinery for the checks that run generated programs through the compiler under test."""
import os, shutil

from . import aldor, findings
from . import run as R
from .check import Fail
from .gen import prog as P


class Outcome:
    """what one route did with one program"""
    __slots__ = ("kind", "lines", "cls", "text", "site", "res")

    def __init__(self, kind, lines=None, cls=None, text="", site="", res=None):
        self.kind, self.lines, self.cls, self.text, self.site, self.res = kind, lines, cls, text, site, res

    def same(self, other):
        return self.kind == other.kind == "ran" and self.lines == other.lines and self.cls == other.cls

    def brief(self):
        if self.kind == "ran":
            return "ran cls=%s lines=%d" % (self.cls, len(self.lines))
        return "%s %s %s" % (self.kind, self.site, self.text[-300:].replace("\n", " | "))


def classify_compile(tc, r):
    """r: Res of a compiler invocation. Returns None if fine, else Outcome(kind in rejected/crash/hang)."""
    t = r.text() + r.err.decode("latin-1")
    if r.cpu_hit or "Exceeded time limit imposed by operating system" in t:
        return Outcome("hang", text=t[-400:], res=r)
    if aldor.has_fault(r):
        return Outcome("crash", text=t[-600:], site=aldor.fault_site(tc, t), res=r)
    if aldor.has_error(t) or r.rc != 0:
        return Outcome("rejected", text=t[:900], res=r)
    return None


def run_interp(tc, wd, file, opts=("-Q1",), env=None, lib="aldor", cpu=None):
    r = aldor.interp(tc, wd, file, opts, lib=lib, env=env, cpu=cpu)
    t = r.text()
    if r.cpu_hit or "Exceeded time limit imposed by operating system" in t:
        return Outcome("hang", text=t[-300:], res=r)
    if aldor.has_fault(r):
        return Outcome("crash", text=t[-600:], site=aldor.fault_site(tc, t), res=r)
    if aldor.has_error(t):
        return Outcome("rejected", text=t[:900], res=r)
    if r.sig is not None:
        return Outcome("crash", text="interpreter died by signal %d" % r.sig, site="signal", res=r)
    return Outcome("ran", aldor.marker_lines(r), "ok" if r.rc == 0 else "fail", text=t, res=r)


def run_c(tc, wd, file, opts=("-Q1",), copts=(), env=None, lib="aldor", exe=None):
    fr, exe = aldor.build_exe(tc, wd, file, opts, lib=lib, copts=copts, exe=exe)
    if fr is not None:
        if fr.out.startswith(b"GCC-FAILED"):
            return Outcome("ccfail", text=fr.text()[:900], res=fr)
        return classify_compile(tc, fr) or Outcome("rejected", text=fr.text()[:600], res=fr)
    e = aldor.run_exe(exe, wd, env=env)
    if e.cpu_hit:
        return Outcome("hang", text="executable exceeded CPU limit", res=e)
    if e.sig is not None:
        return Outcome("ran", aldor.marker_lines(e), "signal%d" % e.sig, text=e.text(), res=e)
    return Outcome("ran", aldor.marker_lines(e), "ok" if e.rc == 0 else "fail", text=e.text(), res=e)


def write_prog(wd, src, name="p.as"):
    p = os.path.join(wd, name)
    with open(p, "w") as f:
        f.write(src)
    return name


def first_diff(a, b):
    i = 0
    while i < min(len(a), len(b)) and a[i] == b[i]:
        i += 1
    return i, a[i:i + 2], b[i:i + 2]


def confirm(fn, times=2):
    """re-run a failing evaluation `times` more times; the failure stands only if every run fails the same way"""
    for _ in range(times):
        if fn() is None:
            return False
    return True
