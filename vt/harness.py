"""Build module-level harness binaries against the repository's own C files (from the toolchain snapshot)."""
import fcntl, os, subprocess, sys, concurrent.futures as cf

from . import build

HDIR = os.path.join(build.VERIF, "harness")
GMP_INC = "/usr/include/x86_64-linux-gnu"
BIGINT_MODS = ("bigint store util stdc opsys cport btree table dword xfloat debug memclim timer format strops "
               "ostream buffer fluid list int foam_i foam_c").split()


def _sh(cmd):
    r = subprocess.run(cmd, shell=True, capture_output=True, text=True)
    return r.returncode, (r.stdout + r.stderr)


def compile_objs(tc, outdir, mods, cc, flags):
    os.makedirs(outdir, exist_ok=True)
    S = tc.srcdir

    def one(m):
        o = os.path.join(outdir, m.replace("/", "_") + ".o")
        if os.path.exists(o):
            return 0, ""
        return _sh("%s %s -w -I%s -I%s/java -c %s/%s.c -o %s" % (cc, flags, S, S, S, m, o))

    with cf.ThreadPoolExecutor(16) as ex:
        for rc, out in ex.map(one, mods):
            if rc != 0:
                print("INFRA-ERROR harness object failed to compile:\n" + out[-2000:])
                sys.exit(2)
    return [os.path.join(outdir, m.replace("/", "_") + ".o") for m in mods]


def ensure(tc, name, builder):
    """builder(tc, outpath) builds the binary; cached in tc.bin keyed by harness source mtime hash."""
    os.makedirs(tc.bin, exist_ok=True)
    out = os.path.join(tc.bin, name)
    stamp = out + ".stamp"
    srcs = sorted(os.listdir(HDIR))
    sig = ";".join("%s:%d" % (f, os.stat(os.path.join(HDIR, f)).st_mtime_ns) for f in srcs)
    if os.path.exists(out) and os.path.exists(stamp) and open(stamp).read() == sig:
        return out
    lock = open(os.path.join(tc.bin, name + ".lock"), "w")
    fcntl.flock(lock, fcntl.LOCK_EX)
    try:
        if os.path.exists(out) and os.path.exists(stamp) and open(stamp).read() == sig:
            return out
        builder(tc, out)
        open(stamp, "w").write(sig)
        return out
    finally:
        fcntl.flock(lock, fcntl.LOCK_UN)


def _link(cmd):
    rc, out = _sh(cmd)
    if rc != 0:
        print("INFRA-ERROR harness link failed:\n%s\n%s" % (cmd, out[-3000:]))
        sys.exit(2)


def bigint_fuzz(tc):
    def b(tc, out):
        objs = compile_objs(tc, os.path.join(tc.bin, "obj-asan-fuzz"), BIGINT_MODS, "clang",
                            "-g -O1 -fsanitize=fuzzer-no-link,address -DSTO_USE_MALLOC")
        _link("clang++ -std=gnu++17 -g -O1 -fsanitize=fuzzer,address -w -I%s -I%s %s/bigint_fuzz.cc %s -lgmp -lm -o %s" % (
            tc.srcdir, GMP_INC, HDIR, " ".join(objs), out))
    return ensure(tc, "bigint_fuzz", b)


def bigint_product(tc):
    def b(tc, out):
        objs = compile_objs(tc, os.path.join(tc.bin, "obj-plain-malloc"), BIGINT_MODS, "clang", "-g -O1 -DSTO_USE_MALLOC")
        _link("clang++ -std=gnu++17 -g -O1 -DPRODUCT_MAIN -w -I%s -I%s %s/bigint_fuzz.cc %s -lgmp -lm -o %s" % (
            tc.srcdir, GMP_INC, HDIR, " ".join(objs), out))
    return ensure(tc, "bigint_product", b)


CONT_MODS = ("bigint store util stdc opsys cport btree table dword xfloat debug memclim timer format strops ostream buffer "
             "fluid list int priq bitv intset dnf").split()


def containers(tc):
    def b(tc, out):
        objs = compile_objs(tc, os.path.join(tc.bin, "obj-asan-verif"), CONT_MODS, "clang",
                            "-g -O1 -fsanitize=address -DSTO_USE_MALLOC -D" + build.GUARD)
        _link("clang++ -std=gnu++17 -g -O1 -fsanitize=address -w -I%s %s/containers_rc.cc %s -lrapidcheck -lm -o %s" % (
            tc.srcdir, HDIR, " ".join(objs), out))
    return ensure(tc, "containers_rc", b)


STORE_MODS = "bigint store util stdc opsys cport btree table dword xfloat debug memclim timer format strops ostream buffer fluid list int".split()


def store_model(tc, flavour="plain"):
    """The real allocator (B-tree + conservative collector), no sanitizer: flavour plain = compiler build, rts = -DFOAM_RTS (runtime)."""
    def b(tc, out):
        objs = compile_objs(tc, os.path.join(tc.bin, "obj-plain"), STORE_MODS, "clang", "-g -O1 -D" + build.GUARD)
        d = ""
        if flavour == "rts":
            rts = compile_objs(tc, os.path.join(tc.bin, "obj-rts"), ["store"], "clang", "-g -O1 -DFOAM_RTS -D" + build.GUARD)
            objs = [o for o in objs if not o.endswith("/store.o")] + rts
            d = "-DFOAM_RTS"
        _link("clang++ -std=gnu++17 -g -O1 %s -w -I%s %s/store_model.cc %s -lrapidcheck -lm -o %s" % (d, tc.srcdir, HDIR, " ".join(objs), out))
    return ensure(tc, "store_model_" + flavour, b)


def xfloat_check(tc):
    def b(tc, out):
        objs = compile_objs(tc, os.path.join(tc.bin, "obj-plain-malloc"), BIGINT_MODS, "clang", "-g -O1 -DSTO_USE_MALLOC")
        _link("clang++ -std=gnu++17 -g -O2 -w -I%s %s/xfloat_check.cc %s -lm -o %s" % (tc.srcdir, HDIR, " ".join(objs), out))
    return ensure(tc, "xfloat_check", b)
