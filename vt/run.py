"""Subprocess execution with resource limits; no wall-clock verdicts."""
import os, resource, signal, subprocess, hashlib, shutil, tempfile

CPU_LIMIT = int(os.environ.get("VERIF_CPU_S", "60"))
AS_LIMIT = 6 << 30
WORK = os.environ.get("VERIF_WORK") or os.path.join(os.path.dirname(os.path.dirname(os.path.abspath(__file__))), ".cache", "work")


class Res:
    __slots__ = ("rc", "sig", "out", "err", "cpu_hit")

    def __init__(self, rc, sig, out, err, cpu_hit):
        self.rc, self.sig, self.out, self.err, self.cpu_hit = rc, sig, out, err, cpu_hit

    @property
    def ok(self):
        return self.rc == 0 and self.sig is None

    def cls(self):
        """exit class: ok / fail / signal"""
        if self.sig is not None:
            return "signal"
        return "ok" if self.rc == 0 else "fail"

    def text(self):
        return self.out.decode("latin-1")

    def __repr__(self):
        return "Res(rc=%r sig=%r out=%r err=%r)" % (self.rc, self.sig, self.out[-300:], self.err[-300:])


def _limits(cpu, fsize, as_limit, nofile=None):
    def f():
        if nofile is not None:
            resource.setrlimit(resource.RLIMIT_NOFILE, (nofile, nofile))
        resource.setrlimit(resource.RLIMIT_CPU, (cpu, cpu + 2))
        if as_limit:
            resource.setrlimit(resource.RLIMIT_AS, (as_limit, as_limit))
        resource.setrlimit(resource.RLIMIT_CORE, (0, 0))
        if fsize is not None:
            resource.setrlimit(resource.RLIMIT_FSIZE, (fsize, fsize))
    return f


def run(cmd, cwd=None, stdin=None, env=None, cpu=None, fsize=None, as_limit=AS_LIMIT, pass_fds=(), wall=None, nofile=None):
    """Run cmd (list). stdin: bytes or None. Returns Res. wall: generous wall-clock backstop (10x CPU limit);
    a wall hit is reported as cpu_hit too (inconclusive unless reproduced)."""
    cpu = cpu or CPU_LIMIT
    e = dict(os.environ)
    e.pop("ALDOR_VERIF_GC", None)
    e["LC_ALL"] = "C"
    if env:
        e.update(env)
    try:
        p = subprocess.Popen(cmd, cwd=cwd, stdin=subprocess.PIPE if stdin is not None else subprocess.DEVNULL,
                             stdout=subprocess.PIPE, stderr=subprocess.PIPE, env=e,
                             preexec_fn=_limits(cpu, fsize, as_limit, nofile), pass_fds=pass_fds, close_fds=True)
    except OSError as ex:
        return Res(127, None, b"", str(ex).encode(), False)
    try:
        out, err = p.communicate(stdin, timeout=wall or cpu * 10 + 30)
        hit = False
    except subprocess.TimeoutExpired:
        p.kill()
        out, err = p.communicate()
        hit = True
    rc = p.returncode
    sig = None
    if rc < 0:
        sig = -rc
        if sig in (signal.SIGXCPU, signal.SIGKILL) :
            hit = True
    return Res(rc, sig, out, err, hit)


def h(*parts):
    m = hashlib.sha256()
    for p in parts:
        if isinstance(p, str):
            p = p.encode("utf-8", "surrogateescape")
        elif not isinstance(p, (bytes, bytearray)):
            p = repr(p).encode()
        m.update(p + b"\0")
    return m.hexdigest()[:16]


class WorkDir:
    """Scratch directory named by case hash, removed on exit."""

    def __init__(self, tag):
        self.path = os.path.join(WORK, "%s-%d" % (tag, os.getpid()))

    def __enter__(self):
        shutil.rmtree(self.path, ignore_errors=True)
        os.makedirs(self.path)
        return self.path

    def __exit__(self, *a):
        shutil.rmtree(self.path, ignore_errors=True)


def write(path, data):
    mode = "wb" if isinstance(data, (bytes, bytearray)) else "w"
    with open(path, mode) as f:
        f.write(data)
