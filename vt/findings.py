"""Known-findings file: committed, never written at run time."""
import json, os, re

VERIF = os.path.dirname(os.path.dirname(os.path.abspath(__file__)))
PATH = os.path.join(VERIF, "known_findings.json")


def load():
    try:
        return json.load(open(PATH))["findings"]
    except FileNotFoundError:
        return []


def known(pid):
    return [f for f in load() if (f.get("property") == pid or pid in f.get("also", [])) and f.get("status") == "known"]


def match(pid, desc):
    """desc: dict describing a failure. A finding matches if every key of its `match` dict is present in desc and
    the (anchored) regex matches str(desc[key]). Returns the finding or None."""
    for f in known(pid):
        m = f.get("match", {})
        ok = True
        for k, pat in m.items():
            if k not in desc or re.fullmatch(pat, str(desc[k]), re.S) is None:
                ok = False
                break
        if ok:
            return f
    return None
