"""Invocation recipes for the compiler under test: interpret, C executable, Java, loop, saved units; output normalisation."""
import os, re, shutil

from . import run as R

# a diagnostic of the compiler itself: "[L12 C3] #1 (Error) ..." / "#1 (Fatal Error) ..." at the start of a line (source excerpts echoed
# inside diagnostics may contain the words anywhere else), or the signal handler's "<text>.#1 (Error) <text>" (Program fault / User break / Exceeded ... limit)
MSG_RE = re.compile(r"^(\[L-?\d+ C-?\d+\] )?#\d+ \((Error|Fatal Error)\)|[.)]#\d+ \((Error|Fatal Error)\) (Program fault|User break|Exceeded|Unexpected signal)", re.M)
FAULT_TEXTS = ("Program fault", "Bug:", "Compiler bug", "Assertion failed", "assertion failed", "VERIF-FAULT-SITE", "Storage allocation error")


def aldor_cmd(tc, lib, opts, files):
    return [tc.aldor, tc.N] + tc.libflags(lib) + list(opts) + list(files)


def compile_(tc, cwd, files, opts=(), lib="aldor", **kw):
    return R.run(aldor_cmd(tc, lib, opts, files), cwd=cwd, **kw)


def interp(tc, cwd, file, opts=(), lib="aldor", env=None, stdin=None, **kw):
    """aldor -Ginterp. Compiler messages and program output both arrive on stdout."""
    return R.run(aldor_cmd(tc, lib, list(opts) + ["-Ginterp"], [file]), cwd=cwd, env=env, stdin=stdin, **kw)


def build_exe(tc, cwd, file, opts=(), lib="aldor", copts=(), exe=None, extra_c=()):
    """aldor -Fc -Fmain + gcc. Returns (Res of failing step or None, exe path)."""
    base = os.path.splitext(os.path.basename(file))[0]
    r = R.run(aldor_cmd(tc, lib, list(opts) + ["-Fc", "-Fmain"], [file]), cwd=cwd)
    if not r.ok:
        return r, None
    exe = exe or os.path.join(cwd, base + ".exe")
    cfiles = [base + ".c", base + "-aldormain.c"] + list(extra_c)
    g = R.run(["gcc", "-w", "-O0", "-I" + tc.srcdir] + list(copts) + ["-o", exe] + cfiles + tc.linklibs(lib), cwd=cwd, cpu=300, as_limit=0)
    if not g.ok:
        g.out = b"GCC-FAILED\n" + g.out + g.err
        return g, None
    return None, exe


def run_exe(exe, cwd, env=None, **kw):
    return R.run([exe], cwd=cwd, env=env, **kw)


def marker_lines(res):
    """the program's own output lines (prefix '@ ')"""
    return [l for l in res.text().split("\n") if l.startswith("@ ")]


def has_error(text):
    return MSG_RE.search(text) is not None


def has_fault(res):
    """A fault of the tool itself. Source excerpts echoed in diagnostics may contain any text, so only two unforgeable signs
    count: death by signal / the handler's marker at the start of a line (hook 2 prints it for SEGV, BUS, FPE, ILL, ABRT, which
    includes bug() and failed assertions), and allocator errors on stderr (excerpts go to stdout)."""
    if res.sig is not None:
        return True
    t = res.text()
    if t.startswith("VERIF-FAULT-SITE:") or "\nVERIF-FAULT-SITE:" in t:
        return True
    e = res.err.decode("latin-1")
    # (a program's own failed `assert` prints "Assertion failed" too: only the C library's form "Assertion `...' failed" is the tool's)
    return "Storage allocation error" in e or re.search(r"Assertion `.*' failed", e) is not None


_TOOL_LINE = re.compile(r'^(#\d+ \((Warning|Error|Fatal Error|Remark|Note)\)|\[L\d+ C\d+\]|"[^"]*", line \d+:|\.*\^+[.^]*$|#\d+ (0x)?[0-9a-f]+ in <|\.\.\.$|Unhandled Exception)')


def strip_tool_text(text):
    """delete only text the tool emits (message blocks, interpreter post-mortem trace); program text is untouched"""
    out = []
    for l in text.split("\n"):
        if _TOOL_LINE.match(l):
            continue
        out.append(l)
    return "\n".join(out)


_A2L = {}
_A2F = {}
FRONT_FILES = {"include.c", "scan.c", "token.c", "syscmd.c", "linear.c", "parseby.c", "axl_y.c", "axl.y", "axl.z", "abnorm.c", "macex.c", "srcline.c",
               "srcpos.c", "comsg.c"}
UTILITY_FILES = {"util.c", "stdc.c", "store.c", "strops.c", "buffer.c", "fname.c", "file.c", "opsys.c", "os_unix.c", "list.c", "table.c", "symbol.c",
                 "bigint.c", "sexpr.c", "ostream.c", "format.c", "msg.c", "path.c", "btree.c", "bitv.c", "priq.c", "cport.c", "debug.c", "fluid.c"}
DRIVER_FILES = {"axlcomp.c", "main.c", "cmdline.c"}


def fault_phase(tc, text):
    """Phase of the first frame of the fault (below the handler, abort and bug()) that is not in a general utility module:
    'syntactic' = lexical / syntactic front end (include, scan, token, linear, parse, abnorm, macex, srcpos, comsg), 'driver' = top level,
    'semantic' = scope binding, type inference and every later phase; '' if unknown."""
    site = fault_site(tc, text, depth=8)
    if not site:
        return ""
    fns = site.split("@")[-1].split("<")
    for fn in fns:
        f = _A2F.get((tc.aldor, fn), "")
        if not f or f in UTILITY_FILES:
            continue
        if f in FRONT_FILES:
            return "syntactic"
        if f in DRIVER_FILES:
            return "driver"
        return "semantic"
    return "semantic" if site.startswith("bug:") else ""


def fault_site(tc, text, depth=3):
    """Resolve the VERIF-FAULT-SITE backtrace (hook 2) into 'f1<f2<f3' (innermost first). '' if none."""
    if "VERIF-FAULT-SITE" not in text:
        m = re.search(r"Bug:\s*(.*)", text)
        return "bug:" + (m.group(1).strip()[:60] if m else "") if "Bug:" in text else ""
    offs = []
    seen_handler = False
    for l in text.split("VERIF-FAULT-SITE:", 1)[1].split("\n"):
        m = re.match(r"(\S+)\(\+?(0x[0-9a-f]+)\)", l.strip())
        m2 = re.match(r"(\S+)\((\w+)\+0x[0-9a-f]+\)", l.strip())
        if m and m.group(1).endswith("/aldor"):
            offs.append(m.group(2))
        elif m2 and m2.group(2) in ("abort", "gsignal", "raise"):
            continue
        elif l.strip() and not l.strip().startswith("/"):
            break
    import subprocess
    names = []
    for o in offs[1:]:          # frame 0 is the signal handler itself
        key = (tc.aldor, o)
        if key not in _A2L:
            r = subprocess.run(["addr2line", "-f", "-e", tc.aldor, o], capture_output=True, text=True)
            ls = r.stdout.split("\n")
            _A2L[key] = ls[0].strip() or "?"
            if len(ls) > 1:
                _A2F[(tc.aldor, _A2L[key])] = os.path.basename(ls[1].split(":")[0])
        n = _A2L[key]
        if n in ("bug", "bugBadCase", "exitFailure", "comsgFatal", "stoDefaultError"):
            continue
        if not names or names[-1] != n:
            names.append(n)
        if len(names) >= depth:
            break
    site = "<".join(names)
    if "Bug:" in text:
        m = re.search(r"Bug:\s*(.*)", text)
        site = "bug:" + (m.group(1).strip()[:40] if m else "") + "@" + site
    return site
