"""Entry point shared by all checks: bin/check <ID> <quick|thorough> [--replay FILE]."""
import importlib, json, multiprocessing as mp, os, sys, time, traceback, glob, hashlib

from . import build, evidence, findings
from .evidence import Ev

VERIF = build.VERIF
NPROC = int(os.environ.get("VERIF_NPROC", "16"))


class Fail:
    """A confirmed failure of the property on one case."""

    def __init__(self, desc, replay, what=""):
        self.desc = desc          # dict of strings used for known-finding matching
        self.replay = replay      # JSON-serialisable concrete case
        self.what = what or desc.get("what", "")

    def plain(self):
        return {"desc": self.desc, "replay": self.replay, "what": self.what}


class Ctx:
    def __init__(self, pid, tier, seed, tc):
        self.pid, self.tier, self.seed, self.tc = pid, tier, seed, tc
        self.ev = Ev()
        self.fails = []        # Fail objects not matched by known findings
        self.known_hits = {}   # finding id -> what
        self.t0 = time.time()
        self.budget = float(os.environ.get("VERIF_BUDGET_SCALE", "1"))
        self.quick = tier == "quick"

    def n(self, quick, thorough):
        return max(1, int((quick if self.quick else thorough) * self.budget))

    # ---- failure registration (main process) ----
    def report(self, fail):
        f = findings.match(self.pid, fail.desc)
        if f is not None:
            self.known_hits.setdefault(f["id"], f.get("what", ""))
            self.ev.excluded_known[f["id"]] += 1
            return False
        self.fails.append(fail)
        return True

    # ---- parallel map over items: fn(item) -> dict(ev=plain, fails=[plain...]) ----
    def pmap(self, fn, items, nproc=None, stop_on_fail=True):
        nproc = min(nproc or NPROC, max(1, len(items)))
        res = []
        with mp.get_context("fork").Pool(nproc, maxtasksperchild=None) as pool:
            it = pool.imap_unordered(_Call(fn), items, chunksize=1)
            for r in it:
                if r.get("error"):
                    print("INFRA-ERROR worker exception:\n" + r["error"], flush=True)
                    pool.terminate()
                    sys.exit(2)
                self.ev.merge(Ev.from_plain(r["ev"]))
                newfail = False
                for f in r.get("fails", []):
                    if self.report(Fail(f["desc"], f["replay"], f.get("what", ""))):
                        newfail = True
                res.append(r.get("value"))
                if newfail and stop_on_fail:
                    pool.terminate()
                    break
        return res


class _Call:
    def __init__(self, fn):
        self.fn = fn

    def __call__(self, item):
        try:
            return self.fn(item)
        except SystemExit:
            raise
        except BaseException:
            return {"error": traceback.format_exc(), "ev": Ev().to_plain()}


def result(ev, fails=(), value=None):
    return {"ev": ev.to_plain(), "fails": [f.plain() for f in fails], "value": value}


def derive_seed(seed, *parts):
    m = hashlib.sha256(("%d|" % seed + "|".join(str(p) for p in parts)).encode()).digest()
    return int.from_bytes(m[:4], "big") | 1


# ---------------- Hypothesis driver ----------------
def hyp_run(pid, strategy, evaluate, seed, max_examples, ev, shrink_cap=12):
    """Run `evaluate(case, ev) -> Fail|None` over generated cases. Known findings are excluded (counted) and the
    search continues. Returns the minimal unknown Fail or None."""
    from hypothesis import given, settings, seed as hseed, HealthCheck, Phase

    state = {"fail_evals": 0, "best": None, "cache": {}}

    class _F(Exception):
        pass

    def keyof(case):
        return hashlib.sha256(repr(case).encode()).hexdigest()

    @hseed(seed)
    @settings(max_examples=max_examples, database=None, deadline=None, derandomize=False, report_multiple_bugs=False,
              suppress_health_check=list(HealthCheck), phases=[Phase.generate, Phase.shrink], print_blob=False)
    @given(strategy)
    def prop(case):
        k = keyof(case)
        if k in state["cache"]:
            f = state["cache"][k]
        elif state["best"] is not None and state["fail_evals"] >= shrink_cap:
            f = None      # shrink budget exhausted: stop exploring, keep best
        else:
            f = evaluate(case, ev)
            if f is not None and findings.match(pid, f.desc) is not None:
                fd = findings.match(pid, f.desc)
                ev.excluded_known[fd["id"]] += 1
                ev.extra.setdefault("known_what", {})[fd["id"]] = fd.get("what", "")
                f = None
            state["cache"][k] = f
            if state["best"] is not None:
                state["fail_evals"] += 1
        if f is not None:
            state["best"] = f
            raise _F()

    try:
        prop()
    except _F:
        return state["best"]
    except Exception as ex:
        # Hypothesis wraps nothing else here; re-raise unexpected errors
        if state["best"] is not None:
            return state["best"]
        raise
    return None


# ---------------- main ----------------
def save_replay(pid, fail):
    d = os.path.join(VERIF, "replays", pid)
    os.makedirs(d, exist_ok=True)
    body = json.dumps({"property": pid, "desc": fail.desc, "what": fail.what, "case": fail.replay}, indent=1, sort_keys=True, default=str)
    name = hashlib.sha256(body.encode()).hexdigest()[:12] + ".json"
    path = os.path.join(d, name)
    with open(path, "w") as f:
        f.write(body + "\n")
    return path


MODULE_LEVEL = ("C10", "C11", "C20")     # decided by harnesses compiled from the C sources: no Aldor libraries needed
FAULT_EVIDENCE = ("C01", "C07")          # a compiler fault on the repository's own valid library sources is a direct counter-example


def toolchain_verdict(pid, mod, tc, seed, tier):
    """What a check says when the compiler built from the tree faults while compiling the repository's own library sources
    (build.ensure returns a partial toolchain) or gets through them only with collection disabled. None = run normally."""
    note = None
    if tc.partial is not None:
        if pid in MODULE_LEVEL:
            return None
        if pid not in FAULT_EVIDENCE:
            print("INFRA-ERROR the compiler built from this tree faults while compiling the repository's libraries (step '%s'); check %s needs "
                  "those libraries and cannot run. C01 and C07 report this fault as a violation.\n%s" % (tc.partial["step"], pid, tc.partial["tail"][-1200:]), flush=True)
            return 2
        note = tc.partial
        what = "the compiler built from this tree faults while compiling the repository's own (valid) library sources in build step '%s'" % note["step"]
    elif tc.gc_note is not None and pid == "C09":
        note = tc.gc_note
        what = ("build step '%s' of the repository's own libraries faults under the default collection schedule and goes through with collection "
                "disabled (ALDOR_VERIF_GC=never): garbage collection changes what the compiler computes" % note["step"])
    if note is None:
        return None
    ev = Ev()
    ev.case("toolchain|" + note["step"], True, sample={"step": note["step"], "log_tail": note["tail"][-600:]}, classes=["toolchain_stage"])
    d = os.path.join(VERIF, "replays", pid)
    os.makedirs(d, exist_ok=True)
    path = os.path.join(d, "toolchain-%s.json" % tc.hash)
    with open(path, "w") as fh:
        json.dump({"property": pid, "what": what, "case": {"toolchain_stage": note["step"], "tree": tc.hash}, "desc": {"kind": "toolchain-fault", "what": what, "log_tail": note["tail"]}}, fh, indent=1)
    t = tier if tier in ("quick", "thorough") else "quick"
    evidence.write(pid, t, seed, mod.LEVEL, ev, mod.RULE, 0.0, 1, mod.ASSUMPTIONS, exhaustive=None, tree=tc.hash)
    print("VIOLATION property=%s replay=%s" % (pid, path), flush=True)
    print("  what: %s" % what, flush=True)
    return 1


def main(argv=None):
    argv = argv or sys.argv[1:]
    if len(argv) < 2:
        print("usage: check <ID> <quick|thorough> | check <ID> --replay FILE")
        return 2
    pid = argv[0]
    mod = importlib.import_module("vt.props." + pid.lower())
    seed = int(os.environ.get("VERIF_SEED", "0") or 0)
    tc = build.ensure()
    if argv[1] == "--replay":
        data = json.load(open(argv[2]))
        if "toolchain_stage" in data.get("case", {}):      # replay of a toolchain-stage verdict = rebuild from the tree and look again
            r = toolchain_verdict(pid, mod, tc, seed, "quick")
            if r is None:
                print("replay passes: the compiler built from this tree compiles the repository's libraries")
                return 0
            return r
        if tc.partial is not None and pid not in MODULE_LEVEL:
            return toolchain_verdict(pid, mod, tc, seed, "quick")
        ctx = Ctx(pid, "quick", seed, tc)
        f = mod.replay(ctx, data["case"])
        if f is not None:
            if findings.match(pid, f.desc):
                print("KNOWN-FINDING: property=%s %s" % (pid, findings.match(pid, f.desc).get("what", "")))
                return 0
            print("VIOLATION property=%s replay=%s" % (pid, argv[2]))
            print(json.dumps(f.desc, indent=1, default=str))
            return 1
        print("replay passes: property %s holds on %s" % (pid, argv[2]))
        return 0
    r = toolchain_verdict(pid, mod, tc, seed, argv[1])
    if r is not None:
        return r
    tier = argv[1]
    if os.environ.get("VERIF_TIER") in ("quick", "thorough") and tier not in ("quick", "thorough"):
        tier = os.environ["VERIF_TIER"]
    assert tier in ("quick", "thorough"), tier
    ctx = Ctx(pid, tier, seed, tc)
    # regression tier: saved reproducers of fixed/known findings and mutant killers
    for path in sorted(glob.glob(os.path.join(VERIF, "replays", pid, "regress", "*.json"))):
        data = json.load(open(path))
        f = mod.replay(ctx, data["case"])
        ctx.ev.classes["regress_replayed"] += 1
        if f is not None:
            f.replay = data["case"]
            if not ctx.report(f):
                continue
            ctx.fails[-1].path = path
    if not ctx.fails:
        mod.run(ctx)
    ctx.ev.extra.pop("known_what", None)
    allf = {f["id"]: f for f in findings.load()}
    hit = set(ctx.known_hits) | set(k for k, v in ctx.ev.excluded_known.items() if v)
    for fid in sorted(hit):
        what = allf.get(fid, {}).get("what") or ctx.known_hits.get(fid, "")
        print("KNOWN-FINDING: property=%s %s [%s; %d case(s) excluded this run]" % (pid, what.split(". ")[0][:300], fid, ctx.ev.excluded_known.get(fid, 0)), flush=True)
    nviol = len(ctx.fails)
    wall = time.time() - ctx.t0
    path = evidence.write(pid, tier, seed, mod.LEVEL, ctx.ev, mod.RULE, wall, nviol, mod.ASSUMPTIONS,
                          exhaustive=getattr(mod, "EXHAUSTIVE", {}).get(tier), tree=tc.hash)
    for f in ctx.fails[:5]:
        p = getattr(f, "path", None) or save_replay(pid, f)
        print("VIOLATION property=%s replay=%s" % (pid, p), flush=True)
        print("  what: %s" % (f.what or json.dumps(f.desc, default=str)[:400]), flush=True)
    print("[%s %s] evaluations=%d distinct_nontrivial=%d excluded_known=%d violations=%d wall=%.0fs evidence=%s" % (
        pid, tier, ctx.ev.evaluations, len(ctx.ev.nontrivial), sum(ctx.ev.excluded_known.values()), nviol, wall, path), flush=True)
    return 1 if nviol else 0


if __name__ == "__main__":
    sys.exit(main())
