"""Evidence collection and schema-validated writing."""
import json, os, time, collections

VERIF = os.path.dirname(os.path.dirname(os.path.abspath(__file__)))
SCHEMA = "/root/.vp/EVIDENCE.schema.json"


class Ev:
    def __init__(self):
        self.evaluations = 0
        self.nontrivial = set()
        self.classes = collections.Counter()
        self.samples = []
        self.excluded_known = collections.Counter()
        self.inconclusive = 0
        self.extra = {}

    def case(self, key=None, nontrivial=False, sample=None, classes=()):
        self.evaluations += 1
        if nontrivial and key is not None:
            self.nontrivial.add(key)
        for c in classes:
            self.classes[c] += 1
        if sample is not None and len(self.samples) < 4 and (nontrivial or len(self.samples) < 1):
            s = sample if isinstance(sample, (dict, list)) else str(sample)
            if isinstance(s, str) and len(s) > 2000:
                s = s[:2000] + "...[truncated]"
            self.samples.append(s)

    def merge(self, other):
        self.evaluations += other.evaluations
        self.nontrivial |= other.nontrivial
        self.classes.update(other.classes)
        for s in other.samples:
            if len(self.samples) < 6:
                self.samples.append(s)
        self.excluded_known.update(other.excluded_known)
        self.inconclusive += other.inconclusive
        for k, v in other.extra.items():
            if isinstance(v, dict) and k in ("fold", "unfolded_calls"):
                self.extra.setdefault(k, {}).update(v)
            elif isinstance(v, dict) and k == "sites":
                tgt = self.extra.setdefault("sites", {})
                for sk, sv in v.items():
                    if sk not in tgt:
                        tgt[sk] = dict(sv)
                    else:
                        tgt[sk]["n"] += sv["n"]
                        if sv["hex"] and (not tgt[sk]["hex"] or sv["len"] < tgt[sk]["len"]):
                            tgt[sk]["hex"], tgt[sk]["len"] = sv["hex"], sv["len"]
            elif isinstance(v, (int, float)) and isinstance(self.extra.get(k, 0), (int, float)):
                self.extra[k] = self.extra.get(k, 0) + v
            else:
                self.extra.setdefault(k, v)

    def to_plain(self):
        return {"evaluations": self.evaluations, "nontrivial": sorted(self.nontrivial), "classes": dict(self.classes),
                "samples": self.samples, "excluded_known": dict(self.excluded_known), "inconclusive": self.inconclusive,
                "extra": self.extra}

    @staticmethod
    def from_plain(d):
        e = Ev()
        e.evaluations = d["evaluations"]
        e.nontrivial = set(d["nontrivial"])
        e.classes = collections.Counter(d["classes"])
        e.samples = d["samples"]
        e.excluded_known = collections.Counter(d["excluded_known"])
        e.inconclusive = d["inconclusive"]
        e.extra = d["extra"]
        return e


def write(pid, tier, seed, level, ev, rule, wall_s, violations, assumptions, exhaustive=None, tree=None):
    cov = {
        "evaluations": ev.evaluations,
        "distinct_nontrivial": len(ev.nontrivial),
        "rule": rule,
        "samples": ev.samples or ["(no case executed)"],
        "classes": dict(sorted(ev.classes.items())),
        "excluded_known": dict(ev.excluded_known),
        "inconclusive": ev.inconclusive,
    }
    cov.update(ev.extra)
    if exhaustive is not None:
        cov["exhaustive"] = bool(exhaustive)
    doc = {"property_id": pid, "tier": tier, "seed": int(seed), "level": level, "coverage": cov,
           "assumptions": list(assumptions), "wall_s": round(wall_s, 2), "violations": int(violations)}
    if tree:
        doc["tree_hash"] = tree
    try:
        import jsonschema
        jsonschema.validate(doc, json.load(open(SCHEMA)))
        doc["schema_valid"] = True
    except ImportError:
        pass
    except Exception as ex:  # still write, but flag
        doc["schema_valid"] = False
        doc["schema_error"] = str(ex)[:300]
    os.makedirs(os.path.join(VERIF, "evidence"), exist_ok=True)
    path = os.path.join(VERIF, "evidence", pid + ".json")
    tmp = path + ".tmp"
    with open(tmp, "w") as f:
        json.dump(doc, f, indent=1, sort_keys=True, default=str)
        f.write("\n")
    os.replace(tmp, path)
    return path
