import sys
from . import build, harness


def main():
    tc = build.ensure()
    for name in ("bigint_product", "bigint_fuzz", "containers"):
        getattr(harness, name)(tc)
    harness.store_model(tc, "plain")
    harness.store_model(tc, "rts")
    harness.xfloat_check(tc)
    print("setup ok: " + tc.top)
    return 0


if __name__ == "__main__":
    sys.exit(main())
