import sys
from . import build, harness


def main():
    tc = build.ensure()
    for name in ("bigint_product", "bigint_fuzz", "containers"):
        getattr(harness, name)(tc)
    for name in ("store_model", "xfloat_check"):
        if hasattr(harness, name):
            getattr(harness, name)(tc)
    print("setup ok: " + tc.top)
    return 0


if __name__ == "__main__":
    sys.exit(main())
