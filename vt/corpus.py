"""The pinned corpus: sources under lib/axllib/test, lib/aldor/test, aldor/aldor/test of the toolchain snapshot."""
import glob, os


def files(tc, maxsize=20000):
    out = []
    for d, lib in (("lib/aldor/test", "aldor"), ("lib/axllib/test", "axllib"), ("aldor/test", "axllib")):
        for p in sorted(glob.glob(os.path.join(tc.R, d, "*.as")) + glob.glob(os.path.join(tc.R, d, "*", "*.as"))):
            try:
                if os.path.getsize(p) <= maxsize:
                    out.append((p, lib))
            except OSError:
                pass
    return out
