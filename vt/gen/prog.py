"""Typed abstract programs: Hypothesis strategy, reference evaluator, renderer.

The generator builds trees that are well-typed by construction in a small sub-language of Aldor (DESIGN.md section 3).
The evaluator shares no code with the compiler and none with the renderer beyond the tree.
Trees are plain nested tuples so that repr() is a stable hash key and Hypothesis can shrink the underlying choices.
"""
import hashlib, math

from hypothesis import strategies as st

# --------------------------------------------------------------------------------------------- types
MI, Z, BOOL, STR, LIST = "MI", "Z", "Bool", "Str", "List"
TNAME = {MI: "MachineInteger", Z: "Integer", BOOL: "Boolean", STR: "String", LIST: "List MachineInteger"}


def tname(t):
    if isinstance(t, str):
        return TNAME[t]
    if t[0] == "Fn":
        a = ", ".join(tname(x) for x in t[1])
        return "(%s) -> %s" % (a, tname(t[2])) if len(t[1]) != 1 else "%s -> %s" % (tname(t[1][0]), tname(t[2]))
    if t[0] == "Arr":
        return "Array MachineInteger"
    if t[0] == "Rec":
        return t[1]
    if t[0] == "Uni":
        return t[1]
    if t[0] == "Dom":
        return "%s(%d)" % (t[1], t[2])
    raise ValueError(t)


class OutOfModel(Exception):
    """The expected result is not defined by the language for this program (overflow window, ...)."""


# --------------------------------------------------------------------------------------------- generator
class Profile:
    def __init__(self, **kw):
        self.window = 2 ** 62          # MI values must stay inside +-window
        self.java = False              # restrict to what genjava implements
        self.size = 12                 # statements in main
        self.abnormal = True           # allow programs that end by exception / assert / never / error
        self.toplevel = None           # None: draw; True: statements at file level; False: inside main()
        self.features = None           # None: draw a feature mix
        self.alloc_heavy = False
        self.extreme = False           # extreme constants (C05)
        self.asserts_false = True      # allow assertions that may fail
        self.forms_only = False        # file-level programs made of definitions and output statements only (C13)
        self.templates = True          # parameterised stateful idioms with closed-form output (outer-variable update, deep lexical nesting, fluids)
        self.__dict__.update(kw)


ALL_FEATURES = ["func", "overload", "macro", "closure", "gener", "record", "union", "array", "list", "exc", "domain", "recursion", "bigz", "string", "loop", "libops", "tmpl"]


# --------------------------------------------------------------------------------------------- stateful templates
# Self-contained idioms whose output is known in closed form from their parameters; they bring in what the expression generator does
# not: a file-level variable updated by a callee while it is also passed by value, assignments to a variable several lexical levels
# out, and dynamically bound (fluid) variables. `free v := e` is used throughout (a bare `free v;` statement is known finding C03-K43).
def L_(v):
    return "(-(%d@MachineInteger))" % -v if v < 0 else "(%d@MachineInteger)" % v


def tmpl_parts(t):
    """t = (kind, id, params...) -> (top-level lines, statement lines for main, expected '@ ' lines)"""
    kind, k = t[0], t[1]
    if kind == "state":
        g0, d, c = t[2:5]
        top = ["gs%d: MachineInteger := %s;" % (k, L_(g0)),
               "bp%d(dd: MachineInteger): MachineInteger == { free gs%d := gs%d + dd; gs%d }" % (k, k, k, k),
               "us%d(pp: MachineInteger): MachineInteger == { tt: MachineInteger := bp%d(%s); pp + tt * %s }" % (k, k, L_(d), L_(c))]
        stm = ['prMI("s%d ", us%d(gs%d));' % (k, k, k), 'prMI("g%d ", gs%d);' % (k, k)]
        return top, stm, ["@ s%d %d" % (k, g0 + (g0 + d) * c), "@ g%d %d" % (k, g0 + d)]
    if kind == "deepnest":
        p0, incs = t[2], t[3]
        D = len(incs)
        # level i (1..D) owns a local w_i, updates the outermost v, and (from level 3 on) the local w_(i-2) two levels out; after the
        # inner level returns it folds its own w_i into v: stores reach variables 1..D levels out, at several slots per level
        lines = ["dn%d(p: MachineInteger): MachineInteger == {" % k, "\tv: MachineInteger := p;"]
        v = p0
        w = {}
        for i, inc in enumerate(incs, 1):
            ind = "\t" * i
            op = "v * (2@MachineInteger) + %s" % L_(inc) if i % 2 == 0 else "v + %s" % L_(inc)
            v = v * 2 + inc if i % 2 == 0 else v + inc
            w[i] = inc * 3 + i
            lines.append("%sl%d(): () == {" % (ind, i))
            lines.append("%s\tw%d: MachineInteger := %s;" % (ind, i, L_(w[i])))
            lines.append("%s\tfree v := %s;" % (ind, op))
            if i >= 3:
                lines.append("%s\tfree w%d := w%d + %s;" % (ind, i - 2, i - 2, L_(10 * i)))
                w[i - 2] += 10 * i
        for i in range(D, 0, -1):
            ind = "\t" * i
            if i < D:
                lines.append("%s\tl%d();" % (ind, i + 1))
            lines.append("%s\tv := v + w%d;" % (ind, i))      # v was declared free by this level's first assignment
            v += w[i]
            lines.append("%s}" % ind)
        lines += ["\tl1();", "\tv", "}"]
        return lines, ['prMI("d%d ", dn%d(%s));' % (k, k, L_(p0))], ["@ d%d %d" % (k, v)]
    if kind == "fluid":
        a, b, c = t[2:5]
        top = ["fluid fl%d: MachineInteger := %s;" % (k, L_(a)),
               "rd%d(): MachineInteger == fl%d;" % (k, k),
               'bn%d(): () == { fluid fl%d := %s; prMI("f%d in ", rd%d()); }' % (k, k, L_(b), k, k),
               "bt%d(): (MachineInteger, MachineInteger) == { fluid fl%d := %s; (rd%d(), (1@MachineInteger)) }" % (k, k, L_(c), k)]
        stm = ["bn%d();" % k, 'prMI("f%d after ", rd%d());' % (k, k), "(xf%d: MachineInteger, yf%d: MachineInteger) := bt%d();" % (k, k, k),
               'prMI("f%d tuple ", xf%d);' % (k, k), 'prMI("f%d after2 ", rd%d());' % (k, k)]
        return top, stm, ["@ f%d in %d" % (k, b), "@ f%d after %d" % (k, a), "@ f%d tuple %d" % (k, c), "@ f%d after2 %d" % (k, a)]
    if kind == "accum":
        start, k1, k2, xs = t[2], t[3], t[4], t[5]
        FT = "MachineInteger -> MachineInteger"
        top = ["mk%d(start: MachineInteger): (MachineInteger -> (%s)) == {" % (k, FT),
               "\ttotal: MachineInteger := start;",
               "\t(k: MachineInteger): (%s) +-> {" % FT,
               "\t\tcalls: MachineInteger := (0@MachineInteger);",
               "\t\t(x: MachineInteger): MachineInteger +-> {",
               "\t\t\tfree calls := calls + (1@MachineInteger);",
               "\t\t\tfree total := total + x * k + calls;",
               "\t\t\ttotal", "\t\t}", "\t}", "}"]
        # the closures live in a driver function of their own: function-valued locals of this shape in main make type inference give
        # up on later statements of main ("cannot yet be completely analyzed", known finding C01-K47)
        drv = ["ac%d(): () == {" % k, "\tam%d: MachineInteger -> (%s) := mk%d(%s);" % (k, FT, k, L_(start)),
               "\taa%d: %s := am%d(%s);" % (k, FT, k, L_(k1)), "\tab%d: %s := am%d(%s);" % (k, FT, k, L_(k2))]
        total, calls, exp = start, [0, 0], []
        for i, x in enumerate(xs):
            which = i % 2
            calls[which] += 1
            total = total + x * (k1, k2)[which] + calls[which]
            drv.append('\tprMI("a%d ", a%s%d(%s));' % (k, "ab"[which], k, L_(x)))
            exp.append("@ a%d %d" % (k, total))
        drv.append("}")
        return top + drv, ["ac%d();" % k], exp
    if kind == "finally":
        a, b, c = t[2:5]        # results: soft-caught value, hard-caught value, offset of the normal path
        top = ["define Sf%d: Category == with;" % k, "Sf%dObj: Sf%d == add;" % (k, k), "define Hd%d: Category == with;" % k, "Hd%dObj: Hd%d == add;" % (k, k),
               "wk%d(n: MachineInteger): MachineInteger == {" % k,
               "\tif n = (0@MachineInteger) then throw Sf%dObj;" % k,
               "\tif n = (1@MachineInteger) then throw Hd%dObj;" % k,
               "\tn + %s" % L_(c), "}",
               "gd%d(n: MachineInteger): MachineInteger == {" % k,
               "\tx: MachineInteger := try wk%d(n) catch E in {" % k,
               "\t\tE has Sf%d => %s;" % (k, L_(a)),
               "\t\ttrue => throw E;",
               "\t\tnever;",
               "\t} finally {",
               '\t\tprMI("lv%d ", n);' % k,
               "\t}", "\tx", "}"]
        stm, exp = [], []
        for i in (0, 1, 2):
            stm += ["rf%dx%d: MachineInteger := try gd%d(%s) catch E in { E has Hd%d => %s; never };" % (k, i, k, L_(i), k, L_(b)), 'prMI("g%d ", rf%dx%d);' % (k, k, i)]
            exp += ["@ lv%d %d" % (k, i), "@ g%d %d" % (k, [a, b, 2 + c][i])]
        return top, stm, exp
    raise ValueError(kind)


class G:
    def __init__(self, draw, profile):
        self.d = draw
        self.p = profile
        self.n = 0
        self.funcs = []      # dicts: name, params [(n,t)], ret, body, throws, recursive, overload_of
        self.macros = []     # (name, nparams, T, body)
        self.recs = []       # (name, [(field, T)])
        self.unis = []       # (name, [(tag, T)])
        self.excs = []       # names
        self.gens = []       # (name, body_expr)   gnK(n: MI): Generator MI, yields body(i, n) for i in 0..n-1
        self.doms = []       # (cat, dom, val_body(z,k), mk_body(z,k), op_body(a,b,k), dbl_body(v))
        self.used = set()
        self.feat = None
        self.flat = False

    # ---- small helpers
    def fresh(self, p):
        self.n += 1
        return "%s%d" % (p, self.n)

    def int(self, lo, hi):
        return self.d(st.integers(lo, hi))

    def chance(self, pct):
        return self.d(st.integers(0, 99)) < pct

    def pick(self, xs):
        return xs[self.d(st.integers(0, len(xs) - 1))]

    def has(self, f):
        return f in self.feat

    # ---- literals
    def lit_mi(self):
        k = self.int(0, 9)
        if k < 6:
            v = self.int(-12, 12)
        elif k < 8:
            v = self.pick([0, 1, -1, 2, 7, 8, 15, 16, 31, 32, 63, 64, 100, 127, 128, 255, 256, 1000, 1023, 1024, 32767, 32768, 65535, 65536, 99999])
            if self.chance(30):
                v = -v
        else:
            v = self.int(-1000000, 1000000)
        if self.p.extreme and self.chance(25):
            v = self.pick([2 ** 31 - 1, 2 ** 31, 2 ** 31 + 1, 2 ** 32, 2 ** 32 + 1, -(2 ** 31), -(2 ** 31) - 1, 2 ** 40 + 3, 2 ** 61, 2 ** 62 - 1, -(2 ** 62) + 1])
            if abs(v) >= self.p.window:
                v = 12345
        form = "dec"
        if v >= 0 and self.chance(12):
            form = self.pick(["r2", "r8", "r16", "r36"])
        return ("lit", MI, v, form)

    def lit_z(self):
        k = self.int(0, 9)
        if k < 5:
            v = self.int(-20, 20)
        elif k < 7 or not self.has("bigz"):
            v = self.int(-10 ** 6, 10 ** 6)
        else:
            e = self.pick([31, 32, 62, 63, 64, 65, 100, 127, 128, 200])
            v = 2 ** e + self.int(-3, 3)
            if self.chance(40):
                v = -v
            if self.chance(30):
                v = v * self.int(1, 10 ** 9) + self.int(0, 999)
        if self.p.extreme and self.chance(20):
            v = self.d(st.integers(10 ** 380, 10 ** 400))
        form = "dec"
        if v >= 0 and self.chance(8):
            form = self.pick(["r2", "r16", "r36"])
        return ("lit", Z, v, form)

    def lit_str(self):
        alphabet = "abcXYZ 019,.:-+*/()<>!?#$%&'~"
        n = self.int(0, 8)
        s = "".join(self.pick(alphabet) for _ in range(n))
        if self.chance(15):
            s += self.pick(['"', "_", 'q"r', "a_b"])
        if self.p.extreme and self.chance(30):
            s = (s + "pad") * self.int(50, 300)
        return ("lit", STR, s, "dec")

    # ---- scopes: list of dicts name -> (type, mutable, meta)
    def vars_of(self, sc, t, mutable_only=False):
        out = []
        for frame in sc:
            for n, (ty, mut, meta) in frame.items():
                if ty == t and (mut or not mutable_only) and not meta.get("fuel"):
                    out.append(n)
        return out

    def vars_where(self, sc, pred):
        out = []
        for frame in sc:
            for n, (ty, mut, meta) in frame.items():
                if pred(ty, mut, meta) and not meta.get("fuel"):
                    out.append((n, ty, mut, meta))
        return out

    # ---- expressions
    def expr(self, t, depth, sc):
        if t == MI:
            return self.e_mi(depth, sc)
        if t == Z:
            return self.e_z(depth, sc)
        if t == BOOL:
            return self.e_bool(depth, sc)
        if t == STR:
            return self.e_str(depth, sc)
        if t == LIST:
            return self.e_list(depth, sc)
        raise ValueError(t)

    def e_int(self, t, depth, sc):
        return self.e_mi(depth, sc) if t == MI else self.e_z(depth, sc)

    def lib_int(self, t, depth, sc):
        """library operations of IntegerType / OrderedArithmeticType whose meaning is fixed for every operand the generator supplies:
        node ("lib", result type, name, operand type, args)"""
        k = self.pick(["abs", "next", "prev", "gcd", "gcd", "max", "min", "shl", "shr"])
        if k in ("abs", "next", "prev"):
            return ("lib", t, k, t, (self.e_int(t, depth - 1, sc),))
        if k in ("gcd", "max", "min"):
            return ("lib", t, k, t, (self.e_int(t, depth - 1, sc), self.e_int(t, depth - 1, sc)))
        if k == "shl":
            return ("lib", t, "shift", t, (self.e_int(t, depth - 1, sc), ("lit", MI, self.int(0, 7), "dec")))
        # right shift: big integers shift their magnitude, machine integers their two's complement word (arithmetic shift), so a
        # negative operand is supplied to the machine-integer form only
        arg = self.e_int(t, depth - 1, sc)
        if t == Z or self.chance(40):
            arg = ("lib", t, "abs", t, (arg,))
        return ("lib", t, "shift", t, (arg, ("lit", MI, -self.int(1, 7), "dec")))

    def small_mi(self, depth, sc):
        """an MI expression with value in 0..5 (for recursion depth, generator length, exponents)"""
        if depth > 0 and self.chance(40):
            return ("bin", MI, "mod", self.e_mi(depth - 1, sc), ("lit", MI, self.int(2, 6), "dec"))
        return ("lit", MI, self.int(0, 5), "dec")

    def calls_for(self, t, sc_depth):
        return [f for f in self.funcs if f["ret"] == t and not f["throws"] and f.get("ready")]

    def e_mi(self, depth, sc):
        opts = ["lit", "lit"]
        vs = self.vars_of(sc, MI)
        if vs:
            opts += ["var"] * 4
        if depth > 0:
            opts += ["add", "add", "sub", "mul", "div", "neg", "if"]
            if self.has("libops"):
                opts += ["libint", "libint", "liblen"]
            if self.calls_for(MI, depth):
                opts += ["call", "call"]
            if [m for m in self.macros if m[2] == MI]:
                opts += ["macro"]
            if self.vars_of(sc, STR) or self.has("string"):
                opts += ["len"]
            if self.vars_where(sc, lambda ty, mut, meta: ty == LIST and meta.get("len", 0) > 0):
                opts += ["lidx", "llen"]
            elif self.has("list"):
                opts += ["llen"]
            if self.vars_where(sc, lambda ty, mut, meta: isinstance(ty, tuple) and ty[0] == "Arr"):
                opts += ["aidx"]
            if self.vars_where(sc, lambda ty, mut, meta: isinstance(ty, tuple) and ty[0] == "Rec" and any(ft == MI for _, ft in self.rec(ty[1]))):
                opts += ["fld"]
            if self.vars_where(sc, lambda ty, mut, meta: isinstance(ty, tuple) and ty[0] == "Fn" and ty[2] == MI):
                opts += ["apply", "apply"]
        k = self.pick(opts)
        if k == "lit":
            return self.lit_mi()
        if k == "var":
            return ("var", MI, self.pick(vs))
        if k in ("add", "sub"):
            return ("bin", MI, "+" if k == "add" else "-", self.e_mi(depth - 1, sc), self.e_mi(depth - 1, sc))
        if k == "mul":
            return ("bin", MI, "*", self.e_mi(depth - 1, sc), ("lit", MI, self.int(-9, 9), "dec"))
        if k == "div":
            op = self.pick(["quo", "rem", "mod"])
            dv = self.int(1, 12) if op == "mod" or self.chance(60) else -self.int(1, 12)
            return ("bin", MI, op, self.e_mi(depth - 1, sc), ("lit", MI, dv, "dec"))
        if k == "libint":
            return self.lib_int(MI, depth, sc)
        if k == "liblen":
            at = self.pick([MI, Z])
            # bit length of a positive value (the length of zero is a library convention)
            pos = ("bin", at, "+", ("lib", at, "abs", at, (self.e_int(at, depth - 1, sc),)), ("lit", at, 1, "dec"))
            return ("lib", MI, "length", at, (pos,))
        if k == "neg":
            return ("neg", MI, self.e_mi(depth - 1, sc))
        if k == "if":
            return ("if", MI, self.e_bool(depth - 1, sc), self.e_mi(depth - 1, sc), self.e_mi(depth - 1, sc))
        if k == "call":
            return self.call(self.pick(self.calls_for(MI, depth)), depth, sc)
        if k == "macro":
            m = self.pick([m for m in self.macros if m[2] == MI])
            return ("mcall", MI, m[0], tuple(self.e_mi(depth - 1, sc) for _ in range(m[1])))
        if k == "len":
            return ("len", STR, self.e_str(depth - 1, sc))
        if k == "llen":
            return ("len", LIST, self.e_list(depth - 1, sc))
        if k == "lidx":
            n, ty, mut, meta = self.pick(self.vars_where(sc, lambda ty, mut, meta: ty == LIST and meta.get("len", 0) > 0))
            return ("idx", LIST, ("var", LIST, n), self.int(1, meta["len"]))
        if k == "aidx":
            n, ty, mut, meta = self.pick(self.vars_where(sc, lambda ty, mut, meta: isinstance(ty, tuple) and ty[0] == "Arr"))
            return ("idx", "Arr", ("var", ty, n), self.int(0, ty[1] - 1))
        if k == "fld":
            n, ty, mut, meta = self.pick(self.vars_where(sc, lambda ty, mut, meta: isinstance(ty, tuple) and ty[0] == "Rec" and any(ft == MI for _, ft in self.rec(ty[1]))))
            f = self.pick([fn for fn, ft in self.rec(ty[1]) if ft == MI])
            return ("fld", MI, ("var", ty, n), f)
        if k == "apply":
            n, ty, mut, meta = self.pick(self.vars_where(sc, lambda ty, mut, meta: isinstance(ty, tuple) and ty[0] == "Fn" and ty[2] == MI))
            return ("apply", MI, ("var", ty, n), tuple(self.expr(a, depth - 1, sc) for a in ty[1]))
        raise AssertionError(k)

    def e_z(self, depth, sc):
        opts = ["lit", "lit"]
        vs = self.vars_of(sc, Z)
        if vs:
            opts += ["var"] * 4
        if depth > 0:
            opts += ["add", "sub", "mul", "div", "neg", "if", "mi2z", "pow"]
            if self.has("libops"):
                opts += ["libint", "libint"]
            if self.calls_for(Z, depth):
                opts += ["call", "call"]
            if [m for m in self.macros if m[2] == Z]:
                opts += ["macro"]
            if self.doms:
                opts += ["dom", "dom"]
            if self.vars_where(sc, lambda ty, mut, meta: isinstance(ty, tuple) and ty[0] == "Rec" and any(ft == Z for _, ft in self.rec(ty[1]))):
                opts += ["fld"]
            if self.vars_where(sc, lambda ty, mut, meta: isinstance(ty, tuple) and ty[0] == "Fn" and ty[2] == Z):
                opts += ["apply"]
        k = self.pick(opts)
        if k == "lit":
            return self.lit_z()
        if k == "var":
            return ("var", Z, self.pick(vs))
        if k in ("add", "sub", "mul"):
            return ("bin", Z, {"add": "+", "sub": "-", "mul": "*"}[k], self.e_z(depth - 1, sc), self.e_z(depth - 1, sc))
        if k == "div":
            op = self.pick(["quo", "rem", "mod"])
            dv = self.lit_z()
            v = dv[2]
            if v == 0:
                v = 7
            if op == "mod":
                v = abs(v)
            return ("bin", Z, op, self.e_z(depth - 1, sc), ("lit", Z, v, "dec"))
        if k == "libint":
            return self.lib_int(Z, depth, sc)
        if k == "neg":
            return ("neg", Z, self.e_z(depth - 1, sc))
        if k == "if":
            return ("if", Z, self.e_bool(depth - 1, sc), self.e_z(depth - 1, sc), self.e_z(depth - 1, sc))
        if k == "mi2z":
            return ("mi2z", self.e_mi(depth - 1, sc))
        if k == "pow":
            return ("pow", self.e_z(depth - 1, sc), self.int(0, 5))
        if k == "call":
            return self.call(self.pick(self.calls_for(Z, depth)), depth, sc)
        if k == "macro":
            m = self.pick([m for m in self.macros if m[2] == Z])
            return ("mcall", Z, m[0], tuple(self.e_z(depth - 1, sc) for _ in range(m[1])))
        if k == "dom":
            dm = self.pick(self.doms)
            kk = self.int(-3, 9)
            return ("dom", self.pick(["val", "dbl"]), dm["dom"], kk, self.domtree(dm, depth - 1, sc, 2))
        if k == "fld":
            n, ty, mut, meta = self.pick(self.vars_where(sc, lambda ty, mut, meta: isinstance(ty, tuple) and ty[0] == "Rec" and any(ft == Z for _, ft in self.rec(ty[1]))))
            f = self.pick([fn for fn, ft in self.rec(ty[1]) if ft == Z])
            return ("fld", Z, ("var", ty, n), f)
        if k == "apply":
            n, ty, mut, meta = self.pick(self.vars_where(sc, lambda ty, mut, meta: isinstance(ty, tuple) and ty[0] == "Fn" and ty[2] == Z))
            return ("apply", Z, ("var", ty, n), tuple(self.expr(a, depth - 1, sc) for a in ty[1]))
        raise AssertionError(k)

    def domtree(self, dm, depth, sc, lvl):
        if lvl > 0 and self.chance(45):
            return ("op", self.domtree(dm, depth, sc, lvl - 1), self.domtree(dm, depth, sc, lvl - 1))
        return ("mk", self.e_z(max(depth, 0), sc))

    def e_bool(self, depth, sc):
        opts = ["lit"]
        vs = self.vars_of(sc, BOOL)
        if vs:
            opts += ["var"] * 2
        if depth > 0:
            opts += ["cmpmi"] * 3 + ["cmpz", "cmpz", "and", "or", "not"]
            if self.has("libops"):
                opts += ["libpred", "libpred", "libbit"]
            if self.has("string"):
                opts += ["cmps"]
        k = self.pick(opts)
        if k == "lit":
            return ("lit", BOOL, self.chance(50), "dec")
        if k == "var":
            return ("var", BOOL, self.pick(vs))
        if k == "libpred":
            at = self.pick([MI, Z])
            return ("lib", BOOL, self.pick(["even?", "odd?", "zero?"]), at, (self.e_int(at, depth - 1, sc),))
        if k == "libbit":
            at = self.pick([MI, Z])
            # bit test of a non-negative value (big integers are sign-magnitude, machine integers two's complement)
            return ("lib", BOOL, "bit?", at, (("lib", at, "abs", at, (self.e_int(at, depth - 1, sc),)), ("lit", MI, self.int(0, 9), "dec")))
        if k == "cmpmi":
            return ("cmp", self.pick(["<", "<=", ">", ">=", "=", "~="]), MI, self.e_mi(depth - 1, sc), self.e_mi(depth - 1, sc))
        if k == "cmpz":
            return ("cmp", self.pick(["<", "<=", ">", ">=", "=", "~="]), Z, self.e_z(depth - 1, sc), self.e_z(depth - 1, sc))
        if k == "cmps":
            return ("cmp", self.pick(["=", "~="]), STR, self.e_str(depth - 1, sc), self.e_str(depth - 1, sc))
        if k == "and":
            return ("and", self.e_bool(depth - 1, sc), self.e_bool(depth - 1, sc))
        if k == "or":
            return ("or", self.e_bool(depth - 1, sc), self.e_bool(depth - 1, sc))
        return ("not", self.e_bool(depth - 1, sc))

    def e_str(self, depth, sc):
        opts = ["lit", "lit"]
        vs = self.vars_of(sc, STR)
        if vs:
            opts += ["var"] * 3
        if depth > 0:
            opts += ["cat", "cat", "if"]
            if self.calls_for(STR, depth):
                opts += ["call"]
        k = self.pick(opts)
        if k == "lit":
            return self.lit_str()
        if k == "var":
            return ("var", STR, self.pick(vs))
        if k == "cat":
            return ("bin", STR, "+", self.e_str(depth - 1, sc), self.e_str(depth - 1, sc))
        if k == "if":
            return ("if", STR, self.e_bool(depth - 1, sc), self.e_str(depth - 1, sc), self.e_str(depth - 1, sc))
        return self.call(self.pick(self.calls_for(STR, depth)), depth, sc)

    def e_list(self, depth, sc):
        opts = ["lit"]
        vs = self.vars_of(sc, LIST)
        if vs:
            opts += ["var"] * 3
        if depth > 0:
            opts += ["cons", "rev", "collect", "collect"]
            if self.gens and not self.flat:
                opts += ["gcollect", "gcollect"]
        k = self.pick(opts)
        if k == "lit":
            n = self.int(0, 5) if not self.p.alloc_heavy else self.int(3, 12)
            els = [self.e_mi(max(depth - 1, 0), sc) for _ in range(n)]
            if n == 1 and els[0][0] == "if":
                # known finding K18: the one-element list literal [if c then a else b] is miscompiled (fault on every route)
                els[0] = ("bin", MI, "+", els[0], ("lit", MI, 0, "dec"))
            return ("listlit", tuple(els))
        if k == "var":
            return ("var", LIST, self.pick(vs))
        if k == "cons":
            return ("cons", self.e_mi(depth - 1, sc), self.e_list(depth - 1, sc))
        if k == "rev":
            return ("rev", self.e_list(depth - 1, sc))
        v = self.fresh("c")
        inner = sc + [{v: (MI, False, {})}]
        if k == "collect":
            lo = self.int(-3, 4)
            hi = lo + (self.int(0, 7) if not self.p.alloc_heavy else self.int(10, 60))
            src = ("range", lo, hi, 1)
        else:
            g = self.pick(self.gens)
            src = ("gen", g[0], self.small_mi(depth - 1, sc) if not self.p.alloc_heavy else ("lit", MI, self.int(5, 40), "dec"))
        cond = self.e_bool(depth - 1, inner) if self.chance(40) else None
        return ("collect", self.e_mi(depth - 1, inner), v, src, cond)

    def call(self, f, depth, sc):
        args = []
        for i, (pn, pt) in enumerate(f["params"]):
            if f["recursive"] and i == 0:
                args.append(self.small_mi(depth - 1, sc))
            else:
                args.append(self.expr(pt, max(depth - 1, 0), sc))
        return ("call", f["ret"], f["name"], f["idx"], tuple(args))

    def rec(self, name):
        for n, fs in self.recs:
            if n == name:
                return fs
        raise KeyError(name)

    def uni(self, name):
        for n, ts in self.unis:
            if n == name:
                return ts
        raise KeyError(name)

    # ---- statements
    def block(self, n, depth, sc, ctx):
        """ctx: dict(loop=bool, func=retT|None, may_throw=set|None)"""
        frame = {}
        sc2 = sc + [frame]
        out = []
        for _ in range(n):
            s = self.stmt(depth, sc2, frame, ctx)
            if s is not None:
                out.append(s)
        return tuple(out)

    def loopctx(self, ctx):
        c = dict(ctx, loop=True, nolambda=True)   # known finding K19: no closures are created inside loop bodies
        if ctx.get("filelevel"):
            c["nodecl"] = True
        return c

    def scalar_t(self):
        ts = [MI, MI, MI, Z, Z, BOOL]
        if self.has("string"):
            ts.append(STR)
        return self.pick(ts)

    def stmt(self, depth, sc, frame, ctx):
        opts = ["decl"] * 4 + ["print"] * 5
        anymut = self.vars_where(sc, lambda ty, mut, meta: mut and ty in (MI, Z, BOOL, STR, LIST))
        if anymut:
            opts += ["assign"] * 4
        if depth > 0:
            opts += ["if", "if"]
            if self.has("loop") and not ctx.get("intry"):   # known finding K11: a loop inside a try block -> 'Bad foam reference'
                opts += ["for", "for"]
                if not ctx.get("filelevel"):
                    # known finding K9: `and` with integer literals inside a file-level while loop is rejected; no file-level while
                    opts += ["while"]
            if self.has("list"):
                opts += ["decllist"] + ([] if ctx.get("intry") else ["forlist"])
            if self.has("gener") and self.gens and not ctx.get("intry"):
                opts += ["forgen", "forgen"]
            if self.has("exc") and self.excs and not self.p.java and not ctx.get("intry"):
                opts += ["try", "try"]
        if self.has("closure"):
            opts += ["declfn", "declfn"]
            if [f for f in self.funcs if f.get("ready") and isinstance(f["ret"], tuple)]:
                opts += ["declfnmk"]
        if self.has("record") and self.recs:
            opts += ["declrec"]
            if self.vars_where(sc, lambda ty, mut, meta: isinstance(ty, tuple) and ty[0] == "Rec"):
                opts += ["setfld", "setfld"]
        if self.has("union") and self.unis:
            opts += ["decluni"]
            if self.vars_where(sc, lambda ty, mut, meta: isinstance(ty, tuple) and ty[0] == "Uni"):
                opts += ["ucase", "ucase", "setuni"]
        if self.has("array"):
            opts += ["declarr"]
            if self.vars_where(sc, lambda ty, mut, meta: isinstance(ty, tuple) and ty[0] == "Arr"):
                opts += ["setidx", "setidx"]
        if ctx.get("loop") and not ctx.get("filelevel"):
            opts += ["brk", "iter"]
        if ctx.get("throwers") and [f for f in self.funcs if f["throws"] and f.get("ready")]:
            opts += ["callthrow"] * 3
            if anymut:
                opts += ["assignthrow"] * 2
        if ctx.get("func") is not None and depth > 0:
            opts += ["return"]
        if ctx.get("func") is not None or ctx.get("infunc"):
            # user functions do not write output: C leaves the evaluation order of the arguments of one call unspecified, so two
            # printing calls in one expression would have no defined output order
            opts = [o for o in opts if o not in ("print", "ucase")]
        if ctx.get("filelevel"):
            # File-level statements are kept simple: closures, try blocks, while loops and generator-driven loops at file level hit
            # several compiler defects (known findings K9, K10, K13); the rich constructs live inside functions.
            opts = [o for o in opts if o not in ("declfn", "declfnmk", "try", "while", "forgen", "callthrow", "assignthrow")]
        if getattr(self.p, "forms_only", False) and ctx.get("filelevel") and ctx.get("func") is None and not ctx.get("infunc"):
            # C13: top-level forms are definitions and output statements (the loop echoes each form's value, so a compound statement
            # whose branches have different types is not a form it accepts)
            opts = [o for o in opts if o not in ("if", "for", "forlist", "forgen", "while", "ucase", "try")]
        if ctx.get("nolambda"):
            opts = [o for o in opts if o not in ("declfn", "declfnmk")]
        if ctx.get("nodecl"):
            # file-level loops: bodies hold no declarations (see DESIGN.md, scoping of file-level loops is outside the defined subset)
            opts = [o for o in opts if o not in ("decl", "decllist", "declfn", "declfnmk", "declrec", "decluni", "declarr", "callthrow", "while", "try")]
            if not opts:
                opts = ["print"]
        k = self.pick(opts)
        if k == "decl":
            t = self.scalar_t()
            name = self.fresh("v")
            e = self.expr(t, depth + 1, sc)
            frame[name] = (t, True, {})
            return ("decl", name, t, e)
        if k == "decllist":
            name = self.fresh("l")
            e = self.e_list(depth + 1, sc)
            meta = {"len": len(e[1])} if e[0] == "listlit" else {}
            mut = not meta
            frame[name] = (LIST, mut, meta)
            return ("decl", name, LIST, e)
        if k == "print":
            ts = [MI, MI, Z, Z, BOOL]
            if self.has("string"):
                ts.append(STR)
            if self.has("list"):
                ts.append(LIST)
            t = self.pick(ts)
            return ("print", t, self.expr(t, depth + 1, sc))
        if k == "assign":
            n, ty, mut, meta = self.pick(anymut)
            return ("assign", n, ty, self.expr(ty, depth + 1, sc))
        if k == "if":
            c = self.e_bool(depth, sc)
            th = self.block(self.int(1, 3), depth - 1, sc, ctx)
            el = self.block(self.int(1, 2), depth - 1, sc, ctx) if self.chance(50) else None
            return ("if", c, th, el)
        if k == "for":
            v = self.fresh("i")
            lo = self.int(-2, 5)
            step = self.pick([1, 1, 1, 2, 3, -1, -2])
            cnt = self.int(0, 6) if not self.p.alloc_heavy else self.int(5, 40)
            hi = lo + cnt * step if step > 0 else lo + cnt * step
            body = self.block(self.int(1, 3), depth - 1, sc + [{v: (MI, False, {"loopvar": True})}], self.loopctx(ctx))
            return ("for", v, ("range", lo, hi, step), body)
        if k == "forlist":
            v = self.fresh("i")
            src = self.e_list(depth, sc)
            body = self.block(self.int(1, 3), depth - 1, sc + [{v: (MI, False, {"loopvar": True})}], self.loopctx(ctx))
            return ("for", v, ("list", src), body)
        if k == "forgen":
            v = self.fresh("i")
            g = self.pick(self.gens)
            body = self.block(self.int(1, 3), depth - 1, sc + [{v: (MI, False, {"loopvar": True})}], self.loopctx(ctx))
            return ("for", v, ("gen", g[0], self.small_mi(depth, sc)), body)
        if k == "while":
            fuel = self.fresh("w")
            frame[fuel] = (MI, False, {"fuel": True})
            c = self.e_bool(depth, sc)
            body = self.block(self.int(1, 3), depth - 1, sc, self.loopctx(ctx))
            return ("while", fuel, self.int(0, 6), c, body, "break" if ctx.get("filelevel") else "and")
        if k == "brk":
            return ("condjump", "break", self.e_bool(depth, sc))
        if k == "iter":
            return ("condjump", "iterate", self.e_bool(depth, sc))
        if k == "declfn":
            name = self.fresh("k")
            nargs = self.int(1, 2)
            ats = tuple(self.pick([MI, MI, Z]) for _ in range(nargs))
            rt = self.pick([MI, MI, Z])
            ps = tuple((self.fresh("a"), t) for t in ats)
            # known finding K19: a closure that captures a loop variable makes the compiler lose that variable ("No meaning for
            # identifier") elsewhere in the loop body; closures capture parameters and ordinary locals only
            vis = [{n: e for n, e in fr.items() if not e[2].get("loopvar")} for fr in sc]
            inner = vis + [{pn: (pt, False, {}) for pn, pt in ps}]
            body = self.expr(rt, 2, inner)
            ty = ("Fn", ats, rt)
            frame[name] = (ty, False, {})
            return ("decl", name, ty, ("lam", ps, rt, body))
        if k == "declfnmk":
            f = self.pick([f for f in self.funcs if f.get("ready") and isinstance(f["ret"], tuple)])
            name = self.fresh("k")
            e = self.call(f, depth + 1, sc)
            frame[name] = (f["ret"], False, {})
            return ("decl", name, f["ret"], e)
        if k == "declrec":
            rn, fs = self.pick(self.recs)
            name = self.fresh("r")
            ty = ("Rec", rn)
            e = ("recnew", rn, tuple(self.expr(ft, depth, sc) for _, ft in fs))
            frame[name] = (ty, False, {})
            return ("decl", name, ty, e)
        if k == "setfld":
            n, ty, mut, meta = self.pick(self.vars_where(sc, lambda ty, mut, meta: isinstance(ty, tuple) and ty[0] == "Rec"))
            fn, ft = self.pick(self.rec(ty[1]))
            return ("setfld", n, ty, fn, ft, self.expr(ft, depth + 1, sc))
        if k == "decluni":
            un, ts = self.pick(self.unis)
            name = self.fresh("u")
            ty = ("Uni", un)
            tg, tt = self.pick(ts)
            e = ("uninew", un, tg, tt, self.expr(tt, depth, sc))
            frame[name] = (ty, True, {})
            return ("decl", name, ty, e)
        if k == "setuni":
            n, ty, mut, meta = self.pick(self.vars_where(sc, lambda ty, mut, meta: isinstance(ty, tuple) and ty[0] == "Uni"))
            tg, tt = self.pick(self.uni(ty[1]))
            return ("assign", n, ty, ("uninew", ty[1], tg, tt, self.expr(tt, depth, sc)))
        if k == "ucase":
            n, ty, mut, meta = self.pick(self.vars_where(sc, lambda ty, mut, meta: isinstance(ty, tuple) and ty[0] == "Uni"))
            return ("ucase", n, ty)
        if k == "declarr":
            name = self.fresh("b")
            ln = self.int(1, 6) if not self.p.alloc_heavy else self.int(20, 200)
            ty = ("Arr", ln)
            e = ("arrnew", ln, self.e_mi(depth, sc))
            frame[name] = (ty, False, {})
            return ("decl", name, ty, e)
        if k == "setidx":
            n, ty, mut, meta = self.pick(self.vars_where(sc, lambda ty, mut, meta: isinstance(ty, tuple) and ty[0] == "Arr"))
            return ("setidx", n, ty, self.int(0, ty[1] - 1), self.e_mi(depth + 1, sc))
        if k == "try":
            if ctx.get("filelevel"):
                # known finding K10: a closure created inside a file-level try block crashes the compiler; file-level try
                # blocks therefore hold no declarations
                ctx = dict(ctx, nodecl=True)
            # known finding K12: break / iterate / return that leave a try block are miscompiled on every route; not generated
            # known finding K11: nested try blocks make the compiler report 'Bad foam reference in const'; not generated
            ctx = dict(ctx, loop=False, func=None, intry=True)
            body = self.block(self.int(1, 3), depth - 1, sc, dict(ctx, throwers=True))
            hs = []
            order = list(self.excs)
            # handlers for every exception of the program, in a drawn order
            perm = []
            while order:
                perm.append(order.pop(self.int(0, len(order) - 1)))
            for ex in perm:
                hs.append((ex, self.block(self.int(1, 2), depth - 1, sc, ctx)))
            fin = self.block(1, 0, sc, dict(ctx, loop=False, func=None, throwers=False)) if self.chance(25) else None
            return ("try", body, tuple(hs), fin)
        if k == "callthrow":
            f = self.pick([f for f in self.funcs if f["throws"] and f.get("ready")])
            name = self.fresh("v")
            e = self.call(f, depth + 1, sc)
            frame[name] = (f["ret"], True, {})
            return ("decl", name, f["ret"], e)
        if k == "assignthrow":
            cands = [(n, ty, f) for (n, ty, mut, meta) in anymut for f in self.funcs if f["throws"] and f.get("ready") and f["ret"] == ty]
            if not cands:
                return ("print", BOOL, self.e_bool(depth, sc))
            n, ty, f = self.pick(cands)
            return ("assign", n, ty, self.call(f, depth + 1, sc))
        if k == "return":
            return ("condret", self.e_bool(depth, sc), self.expr(ctx["func"], depth, sc))
        raise AssertionError(k)

    # ---- top level
    def mkfunc(self, name=None, idx=0, force=None):
        name = name or self.fresh("fn")
        force = force or {}
        nparams = self.int(1, 3)
        params = []
        for i in range(nparams):
            params.append((self.fresh("p"), force.get("p%d" % i) or self.pick([MI, MI, Z, BOOL] + ([STR] if self.has("string") else []))))
        ret = force.get("ret") or self.pick([MI, MI, Z, Z] + ([STR] if self.has("string") else []))
        recursive = self.has("recursion") and self.chance(35) and not force
        throws = self.has("exc") and bool(self.excs) and self.chance(30) and not force and not self.p.java
        if recursive:
            params[0] = (params[0][0], MI)
        f = {"name": name, "idx": idx, "params": tuple(params), "ret": ret, "recursive": recursive, "throws": throws, "ready": False}
        self.funcs.append(f)
        sc = [{pn: (pt, False, {}) for pn, pt in params}]
        pre = []
        if recursive:
            # structural descent on the first parameter
            pre.append(("condret", ("cmp", "<=", MI, ("var", MI, params[0][0]), ("lit", MI, 0, "dec")), self.expr(ret, 1, sc)))
        if throws:
            pre.append(("condthrow", self.e_bool(2, sc), self.pick(self.excs)))
        body = self.block(self.int(0, 3), 1, sc, {"func": ret, "infunc": True})
        # locals declared in the body are visible to the final expression
        sc_final = list(sc)
        fr = {}
        for s in body:
            if s[0] == "decl":
                fr[s[1]] = (s[2], True, {})
            if s[0] == "while":
                pass
        sc_final = sc + [fr]
        fin = self.expr(ret, 2, sc_final)
        if recursive:
            rec_args = [("bin", MI, "-", ("var", MI, params[0][0]), ("lit", MI, 1, "dec"))] + [self.expr(pt, 1, sc_final) for pn, pt in params[1:]]
            rc = ("call", ret, name, idx, tuple(rec_args))
            if ret in (MI, Z):
                fin = ("bin", ret, self.pick(["+", "-"]), fin, rc) if ret == Z or True else fin
            elif ret == STR:
                fin = ("bin", STR, "+", fin, rc)
        f["body"] = tuple(pre) + body
        f["final"] = fin
        f["ready"] = True
        return f

    def program(self):
        p = self.p
        toplevel = p.toplevel if p.toplevel is not None else False
        if p.features is not None:
            self.feat = set(p.features)
        else:
            self.feat = set(f for f in ALL_FEATURES if self.chance(55))
        if toplevel:
            # file-level statements: several scoping defects of file-level loops / try blocks / dependent domains are known findings
            # (K9, K10, K13, K15, K16); file-level programs stay within scalars, containers, functions, macros and overloading
            self.feat -= {"exc", "domain", "closure", "gener"}
        if p.java:
            self.feat -= {"exc"}
        if "exc" in self.feat and "domain" in self.feat:
            # try blocks combined with calls into a parametrised domain hit compiler defects (known findings K11, K14): one program
            # exercises one of the two
            self.feat.discard("exc" if self.chance(50) else "domain")
        if self.has("exc"):
            for _ in range(self.int(1, 3)):
                self.excs.append(self.fresh("Ex"))
        if self.has("record"):
            for _ in range(self.int(1, 2)):
                self.recs.append((self.fresh("Rc"), tuple((self.fresh("f"), self.pick([MI, Z, MI] + ([STR] if self.has("string") else []))) for _ in range(self.int(1, 3)))))
        if self.has("union"):
            for _ in range(self.int(1, 2)):
                self.unis.append((self.fresh("Un"), ((self.fresh("t"), MI), (self.fresh("t"), self.pick([Z, STR] if self.has("string") else [Z])))))
        if self.has("macro"):
            for _ in range(self.int(1, 2)):
                t = self.pick([MI, Z])
                nps = self.int(1, 2)
                ps = tuple(self.fresh("m") for _ in range(nps))
                sc = [{pn: (t, False, {}) for pn in ps}]
                self.macros.append((self.fresh("MC"), nps, t, ps, self.expr(t, 2, sc)))
        if self.has("gener"):
            for _ in range(self.int(1, 2)):
                iv, nv = self.fresh("g"), self.fresh("g")
                sc = [{iv: (MI, False, {}), nv: (MI, False, {})}]
                self.gens.append((self.fresh("gn"), iv, nv, self.e_mi(2, sc)))
        if self.has("domain"):
            for _ in range(1):
                zv, kv, av, bv = self.fresh("z"), self.fresh("z"), self.fresh("z"), self.fresh("z")
                dm = {"cat": self.fresh("Ct"), "dom": self.fresh("Dm"), "val": self.fresh("dv"), "mk": self.fresh("dm"), "op": self.fresh("do"), "dbl": self.fresh("dd"),
                      "zv": zv, "kv": kv, "av": av, "bv": bv}
                scz = [{zv: (Z, False, {}), kv: (Z, False, {})}]
                dm["val_body"] = self.e_z(1, scz)
                dm["mk_body"] = self.e_z(1, scz)
                dm["op_body"] = self.e_z(2, [{av: (Z, False, {}), bv: (Z, False, {}), kv: (Z, False, {})}])
                dm["dbl_body"] = self.e_z(1, [{zv: (Z, False, {})}])   # default: in terms of val(x)
                dm["dbl_override"] = self.chance(30)
                self.doms.append(dm)
        if self.has("func"):
            for _ in range(self.int(1, 4)):
                self.mkfunc()
        if self.has("overload") and self.has("func"):
            nm = self.fresh("ov")
            kind = self.pick(["arg", "ret"])
            if kind == "arg":
                self.mkfunc(nm, 0, {"p0": MI, "ret": MI})
                self.mkfunc(nm, 1, {"p0": Z, "ret": MI})
            else:
                f0 = self.mkfunc(nm, 0, {"p0": MI, "ret": MI})
                f1 = dict(f0)
                # same parameters, different result type: body drawn afresh
                self.funcs.append(f1)
                f1.update(idx=1, ret=Z, ready=False)
                sc = [{pn: (pt, False, {}) for pn, pt in f1["params"]}]
                f1["body"] = ()
                f1["final"] = self.e_z(2, sc)
                f1["ready"] = True
        if self.has("closure") and self.has("func"):
            # a function returning a closure over its parameters
            nm = self.fresh("mk")
            ps = ((self.fresh("p"), MI), (self.fresh("p"), self.pick([MI, Z])))
            at = self.pick([MI, Z])
            rt = self.pick([MI, Z])
            lp = ((self.fresh("a"), at),)
            sc = [{pn: (pt, False, {}) for pn, pt in ps}, {lp[0][0]: (at, False, {})}]
            f = {"name": nm, "idx": 0, "params": ps, "ret": ("Fn", (at,), rt), "recursive": False, "throws": False, "ready": True, "body": (),
                 "final": ("lam", lp, rt, self.expr(rt, 2, sc))}
            self.funcs.append(f)
        n = max(3, self.int(p.size // 2, p.size))
        ctx = {"func": None, "loop": False, "throwers": False, "filelevel": toplevel}
        self.flat = toplevel
        main = list(self.block(n, 2, [], ctx))
        tmpls = []
        if self.has("tmpl") and p.templates and not toplevel:
            for _ in range(self.int(1, 3)):
                kind = self.pick(["state", "deepnest", "accum", "accum"] + ([] if p.java else ["fluid", "finally"]))
                self.n += 1
                k = self.n
                if kind == "state":
                    t = ("state", k, self.int(-50, 2000), self.int(1, 300), self.int(-7, 9))
                elif kind == "deepnest":
                    t = ("deepnest", k, self.int(-20, 50), tuple(self.int(-9, 9) for _ in range(self.int(2, 8))))
                elif kind == "accum":
                    t = ("accum", k, self.int(-100, 1000), self.int(-5, 9), self.int(-5, 9), tuple(self.int(-9, 20) for _ in range(self.int(2, 5))))
                elif kind == "finally":
                    t = ("finally", k, self.int(-9, -1), self.int(-99, -10), self.int(100, 900))
                else:
                    t = ("fluid", k, self.int(-99, 99), self.int(100, 199), self.int(200, 299))
                tmpls.append(t)
                main.insert(self.int(0, len(main)), ("tmpl", len(tmpls) - 1))
        # make sure there are a few prints with data
        frame = {}
        for s in main:
            if s[0] == "decl":
                frame[s[1]] = (s[2], True, {}) if not isinstance(s[2], tuple) else (s[2], False, {})
        for _ in range(self.int(2, 4)):
            t = self.pick([MI, Z, BOOL] + ([STR] if self.has("string") else []) + ([LIST] if self.has("list") else []))
            main.append(("print", t, self.expr(t, 3, [frame])))
        if p.abnormal and self.chance(15):
            kind = self.pick(["throw", "assert", "never", "error"] if (self.excs and not p.java) else (["never", "error"] if p.java else ["assert", "never", "error"]))
            pos = self.int(len(main) // 2, len(main))
            if kind == "throw":
                main.insert(pos, ("throw", self.pick(self.excs)))
            elif kind == "assert":
                main.insert(pos, ("assert", self.e_bool(2, [frame] if pos == len(main) else [])))
            elif kind == "never":
                main.insert(pos, ("condnever", self.e_bool(2, [])))
            else:
                main.insert(pos, ("conderror", self.e_bool(2, []), "halt%d" % self.int(0, 9)))
        decls = {
            "excs": tuple(self.excs), "recs": tuple(self.recs), "unis": tuple(self.unis),
            "macros": tuple(self.macros), "gens": tuple(self.gens), "tmpls": tuple(tmpls),
            "doms": tuple(tuple(sorted(d.items())) for d in self.doms),
            "funcs": tuple(tuple(sorted((k, v) for k, v in f.items() if k != "ready")) for f in self.funcs),
        }
        return ("prog", tuple(sorted(decls.items())), tuple(main), toplevel, tuple(sorted(self.feat)))


def programs(profile=None):
    profile = profile or Profile()

    @st.composite
    def build(draw):
        return G(draw, profile).program()
    return build()


def phash(prog):
    return hashlib.sha256(repr(prog).encode()).hexdigest()[:16]


def decls_of(prog):
    d = dict(prog[1])
    d["funcs"] = [dict(f) for f in d["funcs"]]
    d["doms"] = [dict(x) for x in d["doms"]]
    return d


# --------------------------------------------------------------------------------------------- reference evaluator
class AldorThrow(Exception):
    def __init__(self, exc):
        self.exc = exc


class Abort(Exception):
    def __init__(self, kind):
        self.kind = kind


class _Break(Exception):
    pass


class _Iterate(Exception):
    pass


class _Return(Exception):
    def __init__(self, v):
        self.v = v


class Env:
    __slots__ = ("vars", "parent")

    def __init__(self, parent=None):
        self.vars = {}
        self.parent = parent

    def lookup(self, n):
        e = self
        while e is not None:
            if n in e.vars:
                return e
            e = e.parent
        raise KeyError(n)

    def get(self, n):
        return self.lookup(n).vars[n]

    def set(self, n, v):
        self.lookup(n).vars[n] = v

    def define(self, n, v):
        self.vars[n] = v


def fmt_value(t, v):
    if t in (MI, Z):
        return str(v)
    if t == BOOL:
        return "T" if v else "F"
    if t == STR:
        return v
    if t == LIST:
        return "[" + ",".join(str(x) for x in v) + "]"
    raise ValueError(t)


class Evaluator:
    def __init__(self, prog, window=2 ** 62, max_steps=200000):
        self.prog = prog
        self.d = decls_of(prog)
        self.funcs = {}
        for f in self.d["funcs"]:
            self.funcs[(f["name"], f["idx"])] = f
        self.macros = {m[0]: m for m in self.d["macros"]}
        self.gens = {g[0]: g for g in self.d["gens"]}
        self.doms = {x["dom"]: x for x in self.d["doms"]}
        self.tmpls = self.d.get("tmpls", ())
        self.window = window
        self.out = []
        self.steps = 0
        self.max_steps = max_steps
        self.stats = {"calls": 0, "closures": 0, "loops": 0, "throws": 0, "caught": 0, "collects": 0, "libops": 0, "templates": 0}

    def tick(self):
        self.steps += 1
        if self.steps > self.max_steps:
            raise OutOfModel("step budget")

    def mi(self, v):
        if not (-self.window < v < self.window):
            raise OutOfModel("MI window")
        return v

    # ---- expressions
    def ev(self, e, env):
        self.tick()
        k = e[0]
        if k == "lit":
            return e[2]
        if k == "var":
            return env.get(e[2])
        if k == "bin":
            t, op = e[1], e[2]
            a = self.ev(e[3], env)
            b = self.ev(e[4], env)
            if t == STR:
                if len(a) + len(b) > 200000:
                    raise OutOfModel("huge string")     # e.g. s := s + s in a loop: exponential, the runs die of memory exhaustion
                return a + b
            if op == "+":
                r = a + b
            elif op == "-":
                r = a - b
            elif op == "*":
                r = a * b
            else:
                if b == 0:
                    raise OutOfModel("division by zero")
                q = abs(a) // abs(b)
                if (a < 0) != (b < 0):
                    q = -q
                rem = a - q * b
                if op == "quo":
                    r = q
                elif op == "rem":
                    r = rem
                else:
                    if b < 0:
                        raise OutOfModel("negative modulus")
                    r = a % b
            if t == Z and abs(r) > 10 ** 2000:
                raise OutOfModel("huge")
            return self.mi(r) if t == MI else r
        if k == "lib":
            rt, name, at = e[1], e[2], e[3]
            a = [self.ev(x, env) for x in e[4]]
            self.stats["libops"] += 1
            if name == "abs":
                r = abs(a[0])
            elif name == "next":
                r = a[0] + 1
            elif name == "prev":
                r = a[0] - 1
            elif name == "gcd":
                r = math.gcd(a[0], a[1])
            elif name == "max":
                r = max(a)
            elif name == "min":
                r = min(a)
            elif name == "shift":
                if a[1] < 0 and a[0] < 0 and at != MI:
                    raise OutOfModel("right shift of a negative big integer")
                r = a[0] << a[1] if a[1] >= 0 else a[0] >> -a[1]
            elif name == "length":
                if a[0] <= 0:
                    raise OutOfModel("length of a non-positive value")
                r = a[0].bit_length()
            elif name == "even?":
                return a[0] % 2 == 0
            elif name == "odd?":
                return a[0] % 2 == 1
            elif name == "zero?":
                return a[0] == 0
            elif name == "bit?":
                if a[0] < 0:
                    raise OutOfModel("bit test of a negative value")
                return (a[0] >> a[1]) & 1 == 1
            else:
                raise AssertionError(name)
            if rt == Z and abs(r) > 10 ** 2000:
                raise OutOfModel("huge")
            return self.mi(r) if rt == MI else r
        if k == "neg":
            v = -self.ev(e[2], env)
            return self.mi(v) if e[1] == MI else v
        if k == "pow":
            b = self.ev(e[1], env)
            if b == 0 and e[2] == 0:
                raise OutOfModel("0^0")     # the library's answer (0) is a library convention, not a language rule
            r = b ** e[2]
            if abs(r) > 10 ** 2000:
                raise OutOfModel("huge")
            return r
        if k == "mi2z":
            return self.ev(e[1], env)
        if k == "cmp":
            a = self.ev(e[3], env)
            b = self.ev(e[4], env)
            op = e[1]
            return {"<": a < b, "<=": a <= b, ">": a > b, ">=": a >= b, "=": a == b, "~=": a != b}[op]
        if k == "and":
            return self.ev(e[1], env) and self.ev(e[2], env)
        if k == "or":
            return self.ev(e[1], env) or self.ev(e[2], env)
        if k == "not":
            return not self.ev(e[1], env)
        if k == "if":
            return self.ev(e[3], env) if self.ev(e[2], env) else self.ev(e[4], env)
        if k == "call":
            f = self.funcs[(e[2], e[3])]
            args = [self.ev(a, env) for a in e[4]]
            return self.callf(f, args)
        if k == "mcall":
            m = self.macros[e[2]]
            # tree substitution: parameters stand for the argument expressions, evaluated in the caller's environment
            return self.ev(subst(m[4], dict(zip(m[3], e[3]))), env)
        if k == "len":
            return len(self.ev(e[2], env))
        if k == "idx":
            c = self.ev(e[2], env)
            return c[e[3] - 1] if e[1] == LIST else c[e[3]]
        if k == "fld":
            return self.ev(e[2], env)[e[3]]
        if k == "apply":
            fn = self.ev(e[2], env)
            args = [self.ev(a, env) for a in e[3]]
            self.stats["closures"] += 1
            return fn(*args)
        if k == "lam":
            ps, body = e[1], e[3]
            rt = e[2]

            def fn(*args, _env=env, _ps=ps, _body=body, _rt=rt):
                ne = Env(_env)
                for (pn, pt), a in zip(_ps, args):
                    ne.define(pn, a)
                return self.ev(_body, ne)
            return fn
        if k == "listlit":
            return [self.ev(x, env) for x in e[1]]
        if k == "cons":
            h = self.ev(e[1], env)
            return [h] + list(self.ev(e[2], env))
        if k == "rev":
            return list(reversed(self.ev(e[1], env)))
        if k == "collect":
            self.stats["collects"] += 1
            out = []
            for v in self.iterate_src(e[3], env):
                ne = Env(env)
                ne.define(e[2], v)
                if e[4] is None or self.ev(e[4], ne):
                    out.append(self.ev(e[1], ne))
            return out
        if k == "recnew":
            fs = [fn for fn, ft in self.rec(e[1])]
            return dict(zip(fs, [self.ev(x, env) for x in e[2]]))
        if k == "uninew":
            return (e[2], self.ev(e[4], env))
        if k == "arrnew":
            return [self.ev(e[2], env)] * e[1]
        if k == "dom":
            dm = self.doms[e[2]]
            kk = e[3]
            rep = self.domev(dm, kk, e[4], env)
            val = self.ev(dm["val_body"], self.zenv({dm["zv"]: rep, dm["kv"]: kk}))
            if e[1] == "val":
                return val
            if dm["dbl_override"]:
                return val * 3 + 1
            return self.ev(dm["dbl_body"], self.zenv({dm["zv"]: val}))
        raise ValueError(k)

    def zenv(self, d):
        e = Env()
        e.vars.update(d)
        return e

    def domev(self, dm, kk, tree, env):
        if tree[0] == "mk":
            z = self.ev(tree[1], env)
            return self.ev(dm["mk_body"], self.zenv({dm["zv"]: z, dm["kv"]: kk}))
        a = self.domev(dm, kk, tree[1], env)
        b = self.domev(dm, kk, tree[2], env)
        return self.ev(dm["op_body"], self.zenv({dm["av"]: a, dm["bv"]: b, dm["kv"]: kk}))

    def rec(self, name):
        for n, fs in self.d["recs"]:
            if n == name:
                return fs
        raise KeyError(name)

    def iterate_src(self, src, env):
        if src[0] == "range":
            lo, hi, step = src[1], src[2], src[3]
            v = lo
            while (v <= hi) if step > 0 else (v >= hi):
                self.tick()
                yield v
                v += step
        elif src[0] == "list":
            for v in list(self.ev(src[1], env)):
                yield v
        else:
            g = self.gens[src[1]]
            n = self.ev(src[2], env)
            i = 0
            while i < n:
                self.tick()
                ne = self.zenv({g[1]: i, g[2]: n})
                yield self.ev(g[3], ne)
                i += 1

    def callf(self, f, args):
        self.stats["calls"] += 1
        env = Env()
        for (pn, pt), a in zip(f["params"], args):
            env.define(pn, a)
        try:
            self.run_block(f["body"], env, newframe=False)
            return self.ev(f["final"], env)
        except _Return as r:
            return r.v

    # ---- statements
    def run_block(self, stmts, env, newframe=True):
        e = Env(env) if newframe else env
        for s in stmts:
            self.run(s, e)

    def emit(self, t, v):
        self.out.append("@ " + fmt_value(t, v))

    def run(self, s, env):
        self.tick()
        k = s[0]
        if k == "decl":
            env.define(s[1], self.ev(s[3], env))
        elif k == "assign":
            env.set(s[1], self.ev(s[3], env))
        elif k == "print":
            self.emit(s[1], self.ev(s[2], env))
        elif k == "tmpl":
            self.stats["templates"] += 1
            self.out += tmpl_parts(self.tmpls[s[1]])[2]
        elif k == "if":
            if self.ev(s[1], env):
                self.run_block(s[2], env)
            elif s[3] is not None:
                self.run_block(s[3], env)
        elif k == "for":
            self.stats["loops"] += 1
            try:
                for v in self.iterate_src(s[2], env):
                    ne = Env(env)
                    ne.define(s[1], v)
                    try:
                        self.run_block(s[3], ne)
                    except _Iterate:
                        continue
            except _Break:
                pass
        elif k == "while":
            self.stats["loops"] += 1
            env.define(s[1], s[2])
            try:
                while self.ev(s[3], env) and env.get(s[1]) > 0:
                    env.set(s[1], env.get(s[1]) - 1)
                    try:
                        self.run_block(s[4], env)
                    except _Iterate:
                        continue
            except _Break:
                pass
        elif k == "condjump":
            if self.ev(s[2], env):
                raise _Break() if s[1] == "break" else _Iterate()
        elif k == "condret":
            if self.ev(s[1], env):
                raise _Return(self.ev(s[2], env))
        elif k == "condthrow":
            if self.ev(s[1], env):
                self.stats["throws"] += 1
                raise AldorThrow(s[2])
        elif k == "throw":
            self.stats["throws"] += 1
            raise AldorThrow(s[1])
        elif k == "assert":
            if not self.ev(s[1], env):
                raise Abort("assert")
        elif k == "condnever":
            if self.ev(s[1], env):
                raise Abort("never")
        elif k == "conderror":
            if self.ev(s[1], env):
                raise Abort("error")
        elif k == "setfld":
            env.get(s[1])[s[3]] = self.ev(s[5], env)
        elif k == "setidx":
            env.get(s[1])[s[3]] = self.ev(s[4], env)
        elif k == "ucase":
            tag, val = env.get(s[1])
            ts = dict(self.uni(s[2][1]))
            self.out.append("@ %s %s" % (tag, fmt_value(ts[tag], val)))
        elif k == "try":
            try:
                try:
                    self.run_block(s[1], env)
                except AldorThrow as t:
                    for ex, hb in s[2]:
                        if ex == t.exc:
                            self.stats["caught"] += 1
                            self.run_block(hb, env)
                            break
                    else:
                        raise
            finally:
                if s[3] is not None:
                    self.run_block(s[3], env)
        else:
            raise ValueError(k)

    def uni(self, name):
        for n, ts in self.d["unis"]:
            if n == name:
                return ts
        raise KeyError(name)

    def run_program(self):
        """returns (lines, exit class 'ok'|'fail')"""
        env = Env()
        try:
            for s in self.prog[2]:
                self.run(s, env)
            return self.out, "ok"
        except AldorThrow:
            return self.out, "fail"
        except Abort:
            return self.out, "fail"
        except (_Break, _Iterate, _Return):
            raise OutOfModel("stray jump")
        except RecursionError:
            raise OutOfModel("recursion depth")


def subst(e, m):
    if not isinstance(e, tuple) or not e:
        return e
    if e[0] == "var" and len(e) == 3 and e[2] in m:
        return m[e[2]]
    return tuple(subst(x, m) for x in e)


def evaluate(prog, window=2 ** 62):
    ev = Evaluator(prog, window)
    lines, cls = ev.run_program()
    return lines, cls, ev.stats


# --------------------------------------------------------------------------------------------- renderer (braced style)
def radix_lit(v, form):
    if form == "dec":
        return str(v)
    base = int(form[1:])
    digs = "0123456789ABCDEFGHIJKLMNOPQRSTUVWXYZ"
    n, s = v, ""
    if n == 0:
        s = "0"
    while n > 0:
        s = digs[n % base] + s
        n //= base
    return "%dr%s" % (base, s)


def str_lit(s):
    out = []
    for ch in s:
        if ch == '"':
            out.append('_"')
        elif ch == "_":
            out.append("__")
        else:
            out.append(ch)
    return '"' + "".join(out) + '"'


class Renderer:
    """Braces-and-semicolons rendering. Every literal and every printed value carries its type so that overloaded
    literals never leave the compiler guessing (DESIGN.md section 3.3)."""

    def __init__(self, prog, lib="aldor"):
        self.prog = prog
        self.d = decls_of(prog)
        self.tmp = 0
        self.overloaded = {}
        for f in self.d["funcs"]:
            self.overloaded.setdefault(f["name"], []).append(f)
        # half of the programs are written with the parentheses the grammar makes redundant left out, so that the parser's operator
        # levels and associativity decide the tree: + - (level 6, left) < quo rem mod (7, left) < * (8, left) < ^ (9, right); unary
        # minus takes a level-7 operand and yields level 6 (axl.z rules E6..E9)
        self.minparen = int(phash(prog), 16) % 2 == 0

    def T(self, t):
        return tname(t)

    OPLEVEL = {"+": 6, "-": 6, "quo": 7, "rem": 7, "mod": 7, "*": 8}

    def m(self, e, need):
        """text of e for a context that accepts operator level `need` and above"""
        if not self.minparen:
            return self.x(e)
        k = e[0]
        if k == "bin":
            L = self.OPLEVEL[e[2]]
            t = "%s %s %s" % (self.m(e[3], L), e[2], self.m(e[4], L + 1))
        elif k == "neg":
            L = 6
            t = "-%s" % self.m(e[2], 7)
        elif k == "pow":
            L = 9
            t = "%s ^ (%d@MachineInteger)" % (self.m(e[1], 11), e[2])
        else:
            return self.x(e)
        return "(%s)" % t if L < need else t

    def x(self, e):
        k = e[0]
        if k == "lit":
            t, v = e[1], e[2]
            if t == BOOL:
                return "true" if v else "false"
            if t == STR:
                return str_lit(v)
            if v < 0:
                return "(-(%s@%s))" % (radix_lit(-v, e[3]), self.T(t))
            return "(%s@%s)" % (radix_lit(v, e[3]), self.T(t))
        if k == "var":
            return e[2]
        if k in ("bin", "neg", "pow") and self.minparen:
            return self.m(e, 100)
        if k == "bin":
            return "(%s %s %s)" % (self.x(e[3]), e[2], self.x(e[4]))
        if k == "lib":
            return "%s(%s)" % (e[2], ", ".join(self.m(a, 0) for a in e[4]))
        if k == "neg":
            return "(-%s)" % self.x(e[2])
        if k == "pow":
            return "(%s ^ (%d@MachineInteger))" % (self.x(e[1]), e[2])
        if k == "mi2z":
            return "(%s :: Integer)" % self.x(e[1])
        if k == "cmp":
            return "(%s %s %s)" % (self.m(e[3], 6), e[1], self.m(e[4], 6))
        if k == "and":
            return "(%s and %s)" % (self.x(e[1]), self.x(e[2]))
        if k == "or":
            return "(%s or %s)" % (self.x(e[1]), self.x(e[2]))
        if k == "not":
            return "(not %s)" % self.x(e[1])
        if k == "if":
            return "(if %s then %s else %s)" % (self.x(e[2]), self.x(e[3]), self.x(e[4]))
        if k == "call":
            args = e[4]
            fs = self.overloaded[e[2]]
            if len(fs) > 1:
                f = [g for g in fs if g["idx"] == e[3]][0]
                a = ", ".join("(%s)@%s" % (self.x(v), self.T(pt)) for v, (pn, pt) in zip(args, f["params"]))
                return "((%s(%s))@%s)" % (e[2], a, self.T(e[1]))
            return "%s(%s)" % (e[2], ", ".join(self.m(v, 0) for v in args))
        if k == "mcall":
            return "%s(%s)" % (e[2], ", ".join(self.x(v) for v in e[3]))
        if k == "len":
            return "(#%s)" % self.x(e[2])
        if k == "idx":
            return "(%s.(%d@MachineInteger))" % (self.x(e[2]), e[3])
        if k == "fld":
            return "(%s.%s)" % (self.x(e[2]), e[3])
        if k == "apply":
            return "(%s)(%s)" % (self.x(e[2]), ", ".join(self.x(v) for v in e[3]))
        if k == "lam":
            ps = ", ".join("%s: %s" % (pn, self.T(pt)) for pn, pt in e[1])
            return "((%s): %s +-> %s)" % (ps, self.T(e[2]), self.x(e[3]))
        if k == "listlit":
            if not e[1]:
                return "(empty@List MachineInteger)"
            return "([%s]@List MachineInteger)" % ", ".join(self.x(v) for v in e[1])
        if k == "cons":
            return "cons(%s, %s)" % (self.x(e[1]), self.x(e[2]))
        if k == "rev":
            return "reverse(%s)" % self.x(e[1])
        if k == "collect":
            src = self.src(e[3], e[2])
            cond = " | %s" % self.x(e[4]) if e[4] is not None else ""
            return "([%s %s%s]@List MachineInteger)" % (self.x(e[1]), src, cond)
        if k == "recnew":
            return "[%s]" % ", ".join(self.x(v) for v in e[2])
        if k == "uninew":
            return "[(%s)@%s]" % (self.x(e[4]), self.T(e[3]))
        if k == "arrnew":
            return "new((%d@MachineInteger), %s)" % (e[1], self.x(e[2]))
        if k == "dom":
            dm = [x for x in self.d["doms"] if x["dom"] == e[2]][0]
            D = "%s(%s)" % (e[2], self.x(("lit", Z, e[3], "dec")))
            fn = dm["val"] if e[1] == "val" else dm["dbl"]
            return "(%s(%s)$%s)" % (fn, self.domx(dm, D, e[4]), D)
        raise ValueError(k)

    def domx(self, dm, D, tree):
        if tree[0] == "mk":
            return "(%s(%s)$%s)" % (dm["mk"], self.x(tree[1]), D)
        return "(%s(%s, %s)$%s)" % (dm["op"], self.domx(dm, D, tree[1]), self.domx(dm, D, tree[2]), D)

    def src(self, s, v):
        if s[0] == "range":
            by = "" if s[3] == 1 else " by %s" % self.x(("lit", MI, s[3], "dec"))
            return "for %s: MachineInteger in %s..%s%s" % (v, self.x(("lit", MI, s[1], "dec")), self.x(("lit", MI, s[2], "dec")), by)
        if s[0] == "list":
            return "for %s: MachineInteger in %s" % (v, self.x(s[1]))
        return "for %s: MachineInteger in %s(%s)" % (v, s[1], self.x(s[2]))

    # statements -> list of lines (indent, text)
    def blk(self, stmts, ind, free=()):
        out = []
        for s in stmts:
            out += self.s(s, ind)
        return out

    def s(self, s, ind):
        k = s[0]
        I = ind
        if k == "raw":
            return [(I, l) for l in s[1]]
        if k == "tmpl":
            return [(I, l) for l in tmpl_parts(self.d["tmpls"][s[1]])[1]]
        if k == "decl":
            return [(I, "%s: %s := %s;" % (s[1], self.T(s[2]), self.m(s[3], 0)))]
        if k == "assign":
            return [(I, "%s := %s;" % (s[1], self.m(s[3], 0)))]
        if k == "print":
            return [(I, 'pr%s("", %s);' % (s[1], self.m(s[2], 0)))]
        if k == "if":
            out = [(I, "if %s then {" % self.x(s[1]))] + self.blk(s[2], I + 1)
            if s[3] is not None:
                out += [(I, "} else {")] + self.blk(s[3], I + 1)
            return out + [(I, "}")]
        if k == "for":
            return [(I, "%s repeat {" % self.src(s[2], s[1]))] + self.blk(s[3], I + 1) + [(I, "}")]
        if k == "while":
            if s[5] == "break":
                # file level: known finding K9 (a literal in the left conjunct of a file-level `while (a and b)` is rejected)
                return [(I, "%s: MachineInteger := %s;" % (s[1], self.x(("lit", MI, s[2], "dec")))),
                        (I, "while (%s > (0@MachineInteger)) repeat {" % s[1]),
                        (I + 1, "%s := %s - (1@MachineInteger);" % (s[1], s[1])),
                        (I + 1, "if (not %s) then break;" % self.x(s[3]))] + self.blk(s[4], I + 1) + [(I, "}")]
            return [(I, "%s: MachineInteger := %s;" % (s[1], self.x(("lit", MI, s[2], "dec")))),
                    (I, "while (%s and (%s > (0@MachineInteger))) repeat {" % (self.x(s[3]), s[1])),
                    (I + 1, "%s := %s - (1@MachineInteger);" % (s[1], s[1]))] + self.blk(s[4], I + 1) + [(I, "}")]
        if k == "condjump":
            return [(I, "if %s then %s;" % (self.x(s[2]), s[1]))]
        if k == "condret":
            return [(I, "if %s then return %s;" % (self.x(s[1]), self.x(s[2])))]
        if k == "condthrow":
            return [(I, "if %s then throw %sObj;" % (self.x(s[1]), s[2]))]
        if k == "throw":
            return [(I, "throw %sObj;" % s[1])]
        if k == "assert":
            return [(I, "assert(%s);" % self.x(s[1]))]
        if k == "condnever":
            return [(I, "if %s then never;" % self.x(s[1]))]
        if k == "conderror":
            return [(I, "if %s then error %s;" % (self.x(s[1]), str_lit(s[2])))]
        if k == "setfld":
            return [(I, "%s.%s := %s;" % (s[1], s[3], self.x(s[5])))]
        if k == "setidx":
            return [(I, "%s.(%d@MachineInteger) := %s;" % (s[1], s[3], self.x(s[4])))]
        if k == "ucase":
            (t1, ty1), (t2, ty2) = [x for n, x in [(n, ts) for n, ts in self.d["unis"]] if n == s[2][1]][0]
            return [(I, "if %s case %s then {" % (s[1], t1)),
                    (I + 1, 'pr%s("%s ", %s.%s);' % (ty1, t1, s[1], t1)),
                    (I, "} else {"),
                    (I + 1, 'pr%s("%s ", %s.%s);' % (ty2, t2, s[1], t2)),
                    (I, "}")]
        if k == "try":
            # every branch of the try expression ends in a value of one type, so the whole has a type whatever the branches do
            unit = "(0@MachineInteger)"
            out = [(I, "try {")] + self.blk(s[1], I + 1) + [(I + 1, unit), (I, "} catch E in {")]
            for ex, hb in s[2]:
                out += [(I + 1, "E has %s => {" % ex)] + self.blk(hb, I + 2) + [(I + 2, unit), (I + 1, "};")]
            out += [(I + 1, "never;")]
            if s[3] is not None:
                out += [(I, "} finally {")] + self.blk(s[3], I + 1)
            return out + [(I, "}")]
        raise ValueError(k)

    def assigned_outer(self, stmts, local):
        """names assigned in stmts that are not declared there (need a `free` declaration in a function body)"""
        return set()

    def header(self, helpers=True):
        L = [(0, '#include "aldor"'), (0, '#include "aldorio"'),
             (0, "import from MachineInteger, Integer, String, Character, TextWriter, Boolean;"),
             (0, "import from List MachineInteger, Array MachineInteger;")]
        # output helpers: the value is computed (with all its effects) before anything is written
        for t in ((MI, Z, BOOL, STR, LIST) if helpers else ()):
            L.append((0, 'pr%s(tg: String, x: %s): () == { stdout << "@ " << tg << x << newline; }' % (t, self.T(t))))
        for l in getattr(self, "extra_top", ()):
            L.append((0, l))
        return L

    def top(self, part="all"):
        """part: 'all' = one unit; 'lib' = every definition but no main and no output helpers; 'client' = main against library LB"""
        L = self.header(helpers=(part != "lib"))
        d = self.d
        if part == "client":
            L += [(0, '#library LB "lb.ao"'), (0, "import from LB;")]
        if part != "client":
            for ex in d["excs"]:
                L += [(0, "define %s: Category == with;" % ex), (0, "%sObj: %s == add;" % (ex, ex))]
        for rn, fs in d["recs"]:
            L.append((0, "%s ==> Record(%s);" % (rn, ", ".join("%s: %s" % (fn, self.T(ft)) for fn, ft in fs))))
            L.append((0, "import from %s;" % rn))
        for un, ts in d["unis"]:
            L.append((0, "%s ==> Union(%s);" % (un, ", ".join("%s: %s" % (tn, self.T(tt)) for tn, tt in ts))))
            L.append((0, "import from %s;" % un))
        for m in d["macros"]:
            L.append((0, "%s(%s) ==> %s;" % (m[0], ", ".join(m[3]), self.x(m[4]))))
        if part != "client":
            L += self.defs()
        if part == "lib":
            return L
        main = self.prog[2]
        if self.prog[3]:
            L += self.blk(main, 0)
        else:
            L += [(0, "main(): () == {")] + self.blk(main, 1) + [(0, "}"), (0, "main();")]
        return L

    def defs(self):
        L = []
        d = self.d
        for t in d.get("tmpls", ()):
            L += [(len(l) - len(l.lstrip("\t")), l.lstrip("\t")) for l in tmpl_parts(t)[0]]
        for g in d["gens"]:
            L += [(0, "%s(%s: MachineInteger): Generator MachineInteger == generate {" % (g[0], g[2])),
                  (1, "%s: MachineInteger := (0@MachineInteger);" % g[1]),
                  (1, "while (%s < %s) repeat {" % (g[1], g[2])),
                  (2, "yield %s;" % self.x(g[3])),
                  (2, "%s := %s + (1@MachineInteger);" % (g[1], g[1])),
                  (1, "}"), (0, "}")]
        for dm in d["doms"]:
            L += [(0, "%s: Category == with {" % dm["cat"]),
                  (1, "%s: %% -> Integer;" % dm["val"]), (1, "%s: Integer -> %%;" % dm["mk"]), (1, "%s: (%%, %%) -> %%;" % dm["op"]), (1, "%s: %% -> Integer;" % dm["dbl"]),
                  (1, "default {"),
                  (2, "%s(x: %%): Integer == { %s: Integer := %s(x); %s }" % (dm["dbl"], dm["zv"], dm["val"], self.x(dm["dbl_body"]))),
                  (1, "}"), (0, "}")]
            L += [(0, "%s(%s: Integer): %s == add {" % (dm["dom"], dm["kv"], dm["cat"])),
                  (1, "Rep == Integer;"), (1, "import from Rep;"),
                  (1, "%s(x: %%): Integer == { %s: Integer := rep x; %s }" % (dm["val"], dm["zv"], self.x(dm["val_body"]))),
                  (1, "%s(%s: Integer): %% == per(%s);" % (dm["mk"], dm["zv"], self.x(dm["mk_body"]))),
                  (1, "%s(x: %%, y: %%): %% == { %s: Integer := rep x; %s: Integer := rep y; per(%s) }" % (dm["op"], dm["av"], dm["bv"], self.x(dm["op_body"])))]
            if dm["dbl_override"]:
                L += [(1, "%s(x: %%): Integer == (%s(x) * (3@Integer)) + (1@Integer);" % (dm["dbl"], dm["val"]))]
            L += [(0, "}")]
        for f in d["funcs"]:
            ps = ", ".join("%s: %s" % (pn, self.T(pt)) for pn, pt in f["params"])
            L += [(0, "%s(%s): %s == {" % (f["name"], ps, self.T(f["ret"])))] + self.blk(f["body"], 1) + [(1, self.x(f["final"])), (0, "}")]
        return L

    def text(self, part="all"):
        return "\n".join("\t" * i + t for i, t in self.top(part)) + "\n"


def render(prog):
    return Renderer(prog).text()


def render_split(prog):
    """(library unit, client unit): the same program with its definitions compiled separately from its main block"""
    return Renderer(prog).text("lib"), Renderer(prog).text("client")


# --------------------------------------------------------------------------------------------- ill-typed mutants (C06, C13, C15)
MUTANT_KINDS = ["M1", "M2a", "M2b", "M3", "M4", "M5", "M6", "M7", "M8", "M9", "M10", "M11", "M12", "M13", "M13b", "M14", "M14b"]
TWIN_KINDS = ["W9", "W10", "W11", "W12", "W13", "W14"]     # the well-typed counterparts of M9..M12: same declarations, fault repaired; must be accepted
TOK_DECL = "TokQ: with { mkTokQ: () -> % } == add { Rep == MachineInteger; import from Rep; mkTokQ(): % == per 0 };"
HLP_DECL = "hlpQ(x: MachineInteger): MachineInteger == x + (1@MachineInteger);"


def mutant_parts(kind, n=0):
    """(top-level declaration lines, statement lines or None, offending token) for one catalogue entry.
    Each fault is certain: type clashes use the nominal domain TokQ that no operation accepts."""
    if kind == "M1":
        return [TOK_DECL, HLP_DECL], ["qv%d: MachineInteger := hlpQ(mkTokQ()$TokQ);" % n], "mkTokQ"
    if kind == "M2a":
        return [HLP_DECL], ["qv%d: MachineInteger := hlpQ();" % n], "hlpQ"
    if kind == "M2b":
        return [HLP_DECL], ["qv%d: MachineInteger := hlpQ((1@MachineInteger), (2@MachineInteger));" % n], "hlpQ"
    if kind == "M3":
        return [], ['prMI("", undefinedNameQ%d);' % n], "undefinedNameQ%d" % n
    if kind == "M4":
        return ["ambQ(): MachineInteger == (1@MachineInteger);", "ambQ(): Integer == (2@Integer);"], ["qz%d := ambQ();" % n], "qz%d" % n
    if kind == "M5":
        # the constant is defined in the same scope as the assignment (an assignment inside a function to a constant of an outer scope
        # would legally create a local variable)
        return [], ["cstQ%d: MachineInteger == (3@MachineInteger);" % n, "cstQ%d := (4@MachineInteger);" % n], "cstQ%d" % n
    if kind == "M6":
        return [TOK_DECL, "badretQ(x: MachineInteger): MachineInteger == mkTokQ()$TokQ;"], None, "mkTokQ"
    if kind == "M7":
        return ["CtQ: Category == with { e1Q: % -> MachineInteger; e2Q: % -> MachineInteger };",
                "DmQ: CtQ == add { Rep == MachineInteger; e1Q(x: %): MachineInteger == (1@MachineInteger) };"], None, "add"
    if kind == "M8":
        return ["CtP: Category == with { e1P: % -> MachineInteger };",
                "DmP(T: CtP): with { gP: T -> MachineInteger } == add { gP(t: T): MachineInteger == opNotThereQ(t) };"], None, "opNotThereQ"
    # conditional implementation of an unconditionally required export (M9) / export made conditional too (W9)
    m9 = ["HasQ: Category == with { twQ: % -> % };",
          "CtC%s: Category == with { mkC: MachineInteger -> %%; vlC: %% -> MachineInteger; %sdbC: %% -> %% };",
          "DmC(R: Type): CtC%s == add { Rep == MachineInteger; import from Rep; mkC(n: MachineInteger): % == per n; vlC(x: %): MachineInteger == rep x; "
          "if R has HasQ then { dbC(x: %): % == per(rep x + rep x); } };"]
    if kind == "M9":
        return [m9[0], m9[1] % ("", ""), m9[2].replace("CtC%s", "CtC")], None, "add"
    if kind == "W9":
        return [m9[0], m9[1] % ("(R: Type)", "if R has HasQ then "), m9[2].replace("CtC%s", "CtC(R)")], ["import from DmC(String);", 'prMI("", vlC(mkC((4@MachineInteger))));'], "vlC"
    # the same export, whose type mentions neither % nor a parameter, imported from two instances of one parametrised domain
    tg = ["TgQ(n: MachineInteger): with { tagQ: () -> MachineInteger } == add { tagQ(): MachineInteger == n };", "import from TgQ(1), TgQ(2);"]
    if kind == "M10":
        return tg, ["qa%d: MachineInteger := tagQ();" % n], "tagQ"
    if kind == "W10":
        return tg, ["qa%d: MachineInteger := tagQ()$TgQ(2);" % n, 'prMI("", qa%d);' % n], "tagQ"
    # ... from two parameters of the same category
    nm = ["NmQ: Category == with { lblQ: () -> MachineInteger };", "RdQ: NmQ == add { lblQ(): MachineInteger == 1 };", "BlQ: NmQ == add { lblQ(): MachineInteger == 2 };"]
    if kind == "M11":
        return nm + ["bothQ(R: NmQ, S: NmQ): MachineInteger == { import from R, S; lblQ() }"], None, "lblQ"
    if kind == "W11":
        return nm + ["bothQ(R: NmQ, S: NmQ): MachineInteger == { import from R, S; lblQ()$S }"], ['prMI("", bothQ(RdQ, BlQ));'], "lblQ"
    # ... one instance imported at file level, another inside the function
    bx = ["BxQ(T: Type): with { wdQ: () -> MachineInteger } == add { wdQ(): MachineInteger == 8 };", "import from BxQ(String);"]
    if kind == "M12":
        return bx, ["import from BxQ(MachineInteger);", "qb%d: MachineInteger := wdQ();" % n], "wdQ"
    if kind == "W12":
        return bx, ["import from BxQ(MachineInteger);", "qb%d: MachineInteger := wdQ()$BxQ(MachineInteger);" % n, 'prMI("", qb%d);' % n], "wdQ"
    # assignment to a file-level constant from inside functions that declare it free (one level / through two nested levels)
    if kind in ("M13", "M13b", "W13"):
        decl = "cfQ: MachineInteger %s (3@MachineInteger);" % (":=" if kind == "W13" else "==")
        if kind == "M13b":
            fn = ["bmQ(): () == { free cfQ; cfQ := cfQ + (4@MachineInteger); }"]
        else:
            fn = ["bmQ(): () == { free cfQ; stQ(n: MachineInteger): () == { free cfQ; cfQ := cfQ + n; }; stQ((4@MachineInteger)); }"]
        return [decl] + fn, (['bmQ();', 'prMI("", cfQ);'] if kind == "W13" else None), "cfQ"
    # a category with two exports of one name, a default for one of them, and a domain that omits the other
    if kind in ("M14", "M14b", "W14"):
        sigs = ["grQ: % -> %;", "grQ: (%, MachineInteger) -> %;"]
        if kind == "M14b":
            sigs.reverse()
        cat = ("CtS: Category == with { %s %s mkS: MachineInteger -> %%; vlS: %% -> MachineInteger; default { grQ(x: %%): %% == grQ(x, (1@MachineInteger)); } };"
               % (sigs[0], sigs[1]))
        extra = " grQ(x: %, n: MachineInteger): % == per(rep x + n);" if kind == "W14" else ""
        dom = "DmS: CtS == add { Rep == MachineInteger; import from Rep; mkS(n: MachineInteger): % == per n; vlS(x: %): MachineInteger == rep x;" + extra + " };"
        return [cat, dom], (["import from DmS;", 'prMI("", vlS(grQ(mkS((3@MachineInteger)))));'] if kind == "W14" else None), "add"
    raise ValueError(kind)


def mutant_sites(prog):
    """eligible statement sites: ('main', i) for every position of the main block, ('func', fi, i) for every position of every body"""
    sites = [("main", i) for i in range(len(prog[2]) + 1)]
    d = decls_of(prog)
    for fi, f in enumerate(d["funcs"]):
        for i in range(len(f["body"]) + 1):
            sites.append(("func", fi, i))
    return sites


def render_mutant(prog, kind, site, n=0):
    tops, stmt, tok = mutant_parts(kind, n)
    r = Renderer(prog)
    r.extra_top = tops
    if stmt is not None:
        raw = ("raw", tuple(stmt))
        if site[0] == "main":
            main = list(prog[2])
            main.insert(site[1], raw)
            r.prog = (prog[0], prog[1], tuple(main), prog[3], prog[4])
        else:
            f = r.d["funcs"][site[1]]
            b = list(f["body"])
            b.insert(site[2], raw)
            f["body"] = tuple(b)
    return r.text(), tok


def has_recursion(prog):
    return any(dict(f)["recursive"] for f in dict(prog[1])["funcs"])
