"""Layout-only renderings of one abstract program (C14): braced with perturbed white space / comments / line breaks, and #pile."""
import re

STR = re.compile(r'"(?:_.|[^"_])*"')


def _segments(text):
    """split a line into (is_string, segment) pieces"""
    out, pos = [], 0
    for m in STR.finditer(text):
        if m.start() > pos:
            out.append((False, text[pos:m.start()]))
        out.append((True, m.group(0)))
        pos = m.end()
    if pos < len(text):
        out.append((False, text[pos:]))
    return out


def spaced(text, rnd, level):
    """widen existing blanks, add blanks after '(' / before ')' / after ',' (never inside string literals)"""
    if level == 0:
        return text
    out = []
    for is_str, seg in _segments(text):
        if is_str:
            out.append(seg)
            continue
        res = []
        for ch in seg:
            if ch == " " and rnd.random() < 0.3:
                res.append(rnd.choice(["  ", "   ", " \t", "\t"]))
            elif ch == "(" and rnd.random() < 0.2:
                res.append("( ")
            elif ch == ")" and rnd.random() < 0.2:
                res.append(" )")
            elif ch == "," and rnd.random() < 0.3:
                res.append(" ,  ")
            else:
                res.append(ch)
        out.append("".join(res))
    return "".join(out)


def break_points(text):
    """indices of blanks outside string literals at which a line may be broken"""
    pts, pos = [], 0
    for is_str, seg in _segments(text):
        if not is_str:
            for i, ch in enumerate(seg):
                if ch == " " and 0 < pos + i < len(text) - 1:
                    pts.append(pos + i)
        pos += len(seg)
    return pts


COMMENTS = ["-- a comment", "--", "-- { unbalanced ( in a comment", '-- "quote', "--   if then else repeat ==", "-- #pile is not a directive here"]


def braced(lines, rnd, style):
    """style: dict(indent=int|'tab'|'random', spacing=0..2, blank=prob, comment=prob, trailing=prob, breaks=prob)"""
    out = []
    for ind, text in lines:
        if rnd.random() < style.get("blank", 0):
            out.append("" if rnd.random() < 0.5 else "   \t ")
        if rnd.random() < style.get("comment", 0) and not text.startswith("#"):
            out.append(" " * rnd.randrange(0, 9) + rnd.choice(COMMENTS))
        t = spaced(text, rnd, style.get("spacing", 0)) if not text.startswith("#") else text
        if style["indent"] == "tab":
            pre = "\t" * ind
        elif style["indent"] == "random":
            pre = " " * rnd.randrange(0, 12)
        else:
            pre = " " * (style["indent"] * ind)
        if text.startswith("#"):
            pre = ""
        if rnd.random() < style.get("breaks", 0) and not text.startswith("#"):
            pts = break_points(t)
            if pts:
                i = rnd.choice(pts)
                if rnd.random() < 0.3:
                    # an escaped line break (the '_' swallows the newline and the white space after it, blank lines included)
                    out.append(pre + t[:i] + " _")
                    if rnd.random() < 0.5:
                        out += rnd.choice([[""], ["   "], ["", " \t"]])
                else:
                    out.append(pre + t[:i])
                t = " " * rnd.randrange(0, 6) + t[i + 1:]
                pre = pre + "  "
        if rnd.random() < style.get("trailing", 0) and not text.startswith("#"):
            t = t + "  " + rnd.choice(COMMENTS)
        out.append(pre + t)
    return "\n".join(out) + "\n"


OPENERS = ("{",)


def piled(lines, rnd, style):
    """the same program in indentation-structured form; '#pile' is the first line so that the whole file is one pile"""
    # the directive line may carry trailing white space or a comment
    out = ["#pile" + rnd.choice(["", "", "  ", "\t", "   -- piled from here", " \t-- x"])]
    width = style["indent"]
    for ind, text in lines:
        t = text
        if t in ("}", "};"):
            continue
        if t.startswith("} ") and t.endswith(" {"):
            t = t[2:-2]                      # "} else {" -> "else", "} catch E in {" -> "catch E in", "} finally {" -> "finally"
        elif t.endswith(" {") :
            t = t[:-2]                       # block opener
        elif t.endswith(";") and not t.endswith("};"):
            t = t[:-1]
        elif t.endswith("};") and t.count("{") == t.count("}") and "{" in t:
            t = t[:-1]                       # one-line braced body followed by ';'
        if t.startswith("#"):
            out.append(t)
            continue
        if rnd.random() < style.get("blank", 0):
            out.append("")
        if rnd.random() < style.get("comment", 0):
            out.append((" " * rnd.randrange(0, 10)) + rnd.choice(COMMENTS))
        t = spaced(t, rnd, style.get("spacing", 0))
        pre = ("\t" * ind) if width == "tab" else (" " * (width * ind))
        if rnd.random() < style.get("breaks", 0):
            pts = break_points(t)
            if pts:
                i = rnd.choice(pts)
                out.append(pre + t[:i] + " _")
                if rnd.random() < 0.4:
                    out += rnd.choice([[""], ["   "], ["", " \t"]])      # blank / white-space-only lines after the escape are swallowed with it
                t = t[i + 1:].lstrip()
                # the continuation's indentation is immaterial (the escape removes the line break before piles are formed)
                pre = rnd.choice([pre + ("\t\t" if width == "tab" else " " * (2 * width + 1)), pre, ""])
        if rnd.random() < style.get("trailing", 0):
            t = t + "  " + rnd.choice(COMMENTS[:2] + COMMENTS[3:])
        out.append(pre + t)
    return "\n".join(out) + "\n"
