"""C02 Optimisation settings never change program behaviour: differential against -Q0 on the same route."""
import hashlib, os

from .. import progcheck as PC
from .. import run as R
from ..check import Fail, result, derive_seed, hyp_run
from ..evidence import Ev
from ..gen import prog as P
from hypothesis import strategies as st

ID = "C02"
LEVEL = "exploration"
FLAGS = ["inline", "inline-all", "cfold", "ffold", "hfold", "deadvar", "dassign", "peep", "cprop", "cse", "env", "emerge", "emerge-rr", "flow",
         "cast", "cc", "del-assert", "cc-fnonstd", "killp", "argsub"]
RULE = ("case = (generated program, optimisation configuration); configurations: the levels -Q0..-Q9 and -O, each of the 20 switches of optControl[] "
        "alone (-Q0 -Q<f>) and removed (-Q9 -Qno-<f>), random subsets -Q0 -Q<f1>..-Q<fk>, random inline-limit/size; oracle: '@ ' lines and exit "
        "class under the configuration equal those under -Q0 on the same route (interpreter for every pair, C executable for the cc* switches and "
        "a 1-in-6 sample). Programs keep their assertions true (-Qdel-assert documents that a failing assertion changes behaviour). "
        "Non-trivial = configuration differs from -Q0 and the -Ffm text of the two compilations differs (the optimiser rewrote something); "
        "distinct = (program hash, canonical configuration).")
ASSUMPTIONS = ["-Q9 (unbounded inlining) on a program with a self-recursive function called from another function does not terminate: known finding "
               "C02-K8, those (program, -Q9* or -Qinline-limit > 30) pairs are excluded and counted", "cc-fnonstd is documented as not IEEE compliant; generated programs print no floating values"]


def fixed_configs():
    cs = [["-Q%d" % i] for i in range(10)] + [["-O"]]
    cs += [["-Q0", "-Q" + f] for f in FLAGS]
    cs += [["-Q9", "-Qno-" + f] for f in FLAGS]
    return cs


FIXED = fixed_configs()
from .. import findings as _F
KILLP_KNOWN = any(f["id"] == "C02-K20-killp" for f in _F.known("C02"))


def unbounded_inline(cfg):
    """-Q9 (limit -1) or an explicit limit beyond that of every level (-Q8 = 30): the inliner's growth on recursive functions is not bounded in practice"""
    if not cfg or "-Qno-inline" in cfg:
        return False
    lim = [c for c in cfg if c.startswith("-Qinline-limit=")]
    if lim:
        return int(lim[-1].split("=")[1]) > 30
    return cfg[0] == "-Q9"


@st.composite
def configs(draw):
    k = draw(st.integers(0, 9))
    if k < 6:
        return list(FIXED[draw(st.integers(0, len(FIXED) - 1))])
    if k < 9:
        n = draw(st.integers(1, 6))
        fs = sorted(set(FLAGS[draw(st.integers(0, len(FLAGS) - 1))] for _ in range(n)))
        return ["-Q0"] + ["-Q" + f for f in fs]
    lvl = draw(st.integers(2, 8))
    return ["-Q%d" % lvl, "-Qinline-limit=%d" % draw(st.integers(1, 60)), "-Qinline-size=%d" % draw(st.integers(1, 200))]


CPU = [None]


def run_cfg(tc, wd, route, cfg, tag):
    """returns (Outcome, fm text)"""
    sub = os.path.join(wd, tag)
    os.makedirs(sub, exist_ok=True)
    if not os.path.exists(os.path.join(sub, "p.as")):
        os.link(os.path.join(wd, "p.as"), os.path.join(sub, "p.as"))
    if route == "interp":
        o = PC.run_interp(tc, sub, "p.as", list(cfg) + ["-Ffm"], cpu=CPU[0])
    else:
        o = PC.run_c(tc, sub, "p.as", list(cfg) + ["-Ffm"])
    try:
        fm = open(os.path.join(sub, "p.fm"), errors="replace").read()
    except OSError:
        fm = ""
    return o, fm


def compare(tc, src, cfgs, ev, h, croute_cfgs=()):
    """run one program under -Q0 and each configuration; returns Fail or None"""
    with R.WorkDir("c02-" + h) as wd:
        PC.write_prog(wd, src)
        for route in ("interp", "c"):
            todo = cfgs if route == "interp" else croute_cfgs
            if not todo:
                continue
            base, bfm = run_cfg(tc, wd, route, ["-Q0"], route + "-base")
            if base.kind != "ran":
                ev.classes["baseline_" + base.kind] += 1      # verdict belongs to C01 / C06
                return None
            for i, cfg in enumerate(todo):
                o, fm = run_cfg(tc, wd, route, cfg, "%s-%d" % (route, i))
                key = "%s|%s|%s" % (h, route, " ".join(cfg))
                nt = cfg != ["-Q0"] and fm != bfm and fm != ""
                ev.case(key, nt, sample={"source": src[-700:], "config": cfg, "route": route, "lines": base.lines[:6]} if nt else None,
                        classes=["cfg_" + (cfg[0] if len(cfg) == 1 else (cfg[1] if cfg[0] in ("-Q0", "-Q9") else "mixed")), "route_" + route, "out_" + o.kind])
                if o.kind != "ran":
                    what = "config %s on route %s: %s (baseline -Q0 ran)" % (" ".join(cfg), route, o.brief()[:300])
                    return Fail({"kind": o.kind, "route": route, "config": " ".join(cfg), "site": o.site, "what": what},
                                {"src": src, "route": route, "config": cfg})
                if o.lines != base.lines or o.cls != base.cls:
                    i2, a, b = PC.first_diff(base.lines, o.lines)
                    what = "config %s on route %s: exit class -Q0 %s vs %s; first difference at line %d: -Q0 %r, config %r" % (" ".join(cfg), route, base.cls, o.cls, i2, a, b)
                    return Fail({"kind": "mismatch", "route": route, "config": " ".join(cfg), "src_sha": hashlib.sha256(src.encode()).hexdigest()[:16], "what": what}, {"src": src, "route": route, "config": cfg})
    return None


def _worker(args):
    tc, seed, idx, n, ncfg = args
    ev = Ev()
    strat = st.tuples(P.programs(P.Profile(abnormal=True, asserts_false=False)), st.lists(configs(), min_size=ncfg, max_size=ncfg), st.integers(0, 5))

    def evaluate(case, ev):
        pr, cfgs, csel = case
        cfgs = [c for c in cfgs] + [["-Q2"], ["-Q3"], ["-Q9"]]
        # assertions must hold (del-assert): drop programs whose reference run fails an assertion
        try:
            lines, cls, stt = P.evaluate(pr)
        except P.OutOfModel:
            ev.classes["out_of_model"] += 1
            return None
        if any(s[0] == "assert" for s in pr[2]) and cls == "fail":
            ev.classes["assert_fails_skipped"] += 1
            return None
        if KILLP_KNOWN:
            k = [c for c in cfgs if "-Qkillp" in c]
            if k:
                ev.excluded_known["C02-K20-killp"] += len(k)
            cfgs = [c for c in cfgs if "-Qkillp" not in c]
        if P.has_recursion(pr):
            k = [c for c in cfgs if unbounded_inline(c)]
            if k:
                ev.excluded_known["C02-K8-q9-recursion-diverges"] += len(k)
            cfgs = [c for c in cfgs if not unbounded_inline(c)]
        src = P.render(pr)
        h = P.phash(pr)
        ccfgs = [c for c in cfgs if any(x.startswith("-Qcc") or x.startswith("-Qno-cc") for x in c)]
        if csel == 0:
            ccfgs = ccfgs + cfgs[:2]
        f = compare(tc, src, cfgs, ev, h, ccfgs)
        if f is not None:
            f2 = compare(tc, src, [f.replay["config"]], Ev(), h, [f.replay["config"]] if f.replay["route"] == "c" else ())
            if f2 is None:
                ev.inconclusive += 1
                return None
        return f
    f = hyp_run(ID, strat, evaluate, derive_seed(seed, "c02", idx), n, ev)
    return result(ev, [f] if f else [])


def run(ctx):
    n = ctx.n(9, 120)
    ctx.pmap(_worker, [(ctx.tc, ctx.seed, i, n, 5 if ctx.quick else 10) for i in range(16)])


def replay(ctx, case):
    import hashlib
    h = hashlib.sha256(case["src"].encode()).hexdigest()[:12]
    cfg = case["config"]
    CPU[0] = case.get("cpu")
    f = compare(ctx.tc, case["src"], [cfg] if case.get("route", "interp") == "interp" else [], Ev(), "r" + h, [cfg] if case.get("route") == "c" else ())
    CPU[0] = None
    if f is not None:
        f.replay = case
    return f
