"""C17 Damaged library files are refused, never silently used: every truncation + byte substitutions of .ao / .fm / .al."""
import hashlib, os, shutil, subprocess

from .. import aldor
from .. import run as R
from ..check import Fail, result, derive_seed
from ..evidence import Ev

ID = "C17"
LEVEL = "fault_enumeration"
RULE = ("valid files (lb.ao, lb.fm, liblb.al from a small library unit; p.ao from a main program) are damaged by truncation at a byte offset (every "
        "offset of the .ao for the C/Lisp/FOAM generating consumer; strided plus all offsets of header and section table for the others) or by "
        "substituting one byte (values 0x00, 0xFF, b+1, b^0x80 at every offset of header and section table, seeded offsets elsewhere), then read "
        "by a consumer: aldor -Fc -Flsp -Ffm lb.ao; aldor -Fc lb.fm; a client compiled and interpreted against the damaged lb.ao / liblb.al; "
        "aldor -Ginterp p.ao. Oracle: outputs byte-identical to those from the intact file, or >= 1 diagnostic and non-zero exit; never a signal, "
        "fault, CPU-limit hit or exit 0 with different outputs. Non-trivial = the damaged file differs from the intact one; distinct = (consumer, damage).")
ASSUMPTIONS = ["'outputs' = the generated files of the consumer plus its '@ ' stdout lines", "CPU limit 20 s per consumer run"]
CPU = 20
AO_HEADER = 165      # 2 + 4 + 4 + 2 + 17 * 9: magic, versions, section count, section table

LB = '''#include "aldor"
LbDom: with { lbf: MachineInteger -> MachineInteger; lbc: MachineInteger; lbs: String } == add {
	lbf(n: MachineInteger): MachineInteger == n * 3 + 1;
	lbc: MachineInteger == 42;
	lbs: String == "library string";
}
'''
CL = '''#include "aldor"
#include "aldorio"
#library LB "%s"
import from LB;
import from LbDom, MachineInteger, String;
stdout << "@ " << lbf(lbc) << " " << lbs << newline;
'''
LC = '''#include "aldor"
LcDom: with { lcf: MachineInteger -> MachineInteger; lcs: String } == add {
	lcf(n: MachineInteger): MachineInteger == n * n - 7;
	lcs: String == "another member";
}
'''
CL2 = '''#include "aldor"
#include "aldorio"
#library LB "%s"
import from LB;
import from LbDom, LcDom, MachineInteger, String;
stdout << "@ " << lbf(lbc) << " " << lbs << " " << lcf(lbc) << " " << lcs << newline;
'''
MAINP = '''#include "aldor"
#include "aldorio"
import from MachineInteger, Integer, String, List MachineInteger;
f(n: Integer): Integer == if n < 2 then 1 else n * f(n - 1);
stdout << "@ " << f(20) << " " << [x * x for x: MachineInteger in 1..5] << " " << (1267650600228229401496703205376@Integer) << newline;
'''

CONSUMERS = {
    # name: (damaged file, command builder(tc), output files)
    "ao2c": ("lb.ao", lambda tc: aldor.aldor_cmd(tc, "aldor", ["-Fc", "-Flsp", "-Ffm=out.fm"], ["lb.ao"]), ["lb.c", "lb.lsp", "out.fm"]),
    "fm2c": ("lb.fm", lambda tc: aldor.aldor_cmd(tc, "aldor", ["-Fc=fromfm.c"], ["lb.fm"]), ["fromfm.c"]),
    "client-ao": ("lb.ao", lambda tc: aldor.aldor_cmd(tc, "aldor", ["-Ginterp"], ["cl.as"]), []),
    "client-al": ("liblb.al", lambda tc: aldor.aldor_cmd(tc, "aldor", ["-Ginterp"], ["cl2.as"]), []),
    # the library unit is the LAST of two archive members: its sections lie at a non-zero offset of the archive stream
    "client-al2": ("liblb2.al", lambda tc: aldor.aldor_cmd(tc, "aldor", ["-Ginterp"], ["cl3.as"]), []),
    "interp-ao": ("p.ao", lambda tc: aldor.aldor_cmd(tc, "aldor", ["-Ginterp", "-laldor"], ["p.ao"]), []),
}


def prepare(tc, base):
    """build the intact files once per run; returns dict name -> bytes"""
    shutil.rmtree(base, ignore_errors=True)
    os.makedirs(base)
    R.write(os.path.join(base, "lb.as"), LB)
    R.write(os.path.join(base, "cl.as"), CL % "lb.ao")
    R.write(os.path.join(base, "cl2.as"), CL % "liblb.al")
    R.write(os.path.join(base, "p.as"), MAINP)
    R.write(os.path.join(base, "lc.as"), LC)
    R.write(os.path.join(base, "cl3.as"), CL2 % "liblb2.al")
    r3 = aldor.compile_(tc, base, ["lc.as"], ["-Fao"])
    if not r3.ok:
        return None
    r = aldor.compile_(tc, base, ["lb.as"], ["-Fao", "-Ffm"])
    r2 = aldor.compile_(tc, base, ["p.as"], ["-Fao"])
    if not (r.ok and r2.ok and os.path.exists(os.path.join(base, "lb.ao"))):
        return None
    subprocess.run(["ar", "cr", "liblb.al", "lb.ao"], cwd=base, check=True)
    subprocess.run(["ar", "cr", "liblb2.al", "lc.ao", "lb.ao"], cwd=base, check=True)
    files = {}
    for n in ("lb.ao", "lb.fm", "liblb.al", "liblb2.al", "p.ao", "cl.as", "cl2.as", "cl3.as"):
        files[n] = open(os.path.join(base, n), "rb").read()
    return files


def run_consumer(tc, files, cname, damaged_bytes, tag):
    target, cmdf, outs = CONSUMERS[cname]
    wd = os.path.join(R.WORK, "c17-%d-%s" % (os.getpid(), tag))
    shutil.rmtree(wd, ignore_errors=True)
    os.makedirs(wd)
    try:
        for n, b in files.items():
            if n == target:
                continue
            if cname in ("client-ao",) and n.endswith(".al"):
                continue
            R.write(os.path.join(wd, n), b)
        R.write(os.path.join(wd, target), damaged_bytes)
        r = R.run(cmdf(tc), cwd=wd, cpu=CPU)
        produced = {}
        for o in outs:
            p = os.path.join(wd, o)
            produced[o] = open(p, "rb").read() if os.path.exists(p) else None
        produced["@stdout"] = "\n".join(aldor.marker_lines(r)).encode()
        return r, produced
    finally:
        shutil.rmtree(wd, ignore_errors=True)


def judge(tc, r, produced, ref):
    """returns (kind, site) or None"""
    t = r.text()
    if r.cpu_hit or "Exceeded time limit imposed" in t:
        return "hang", ""
    if aldor.has_fault(r):
        return "fault", aldor.fault_site(tc, t) or ("signal%s" % r.sig)
    haserr = aldor.has_error(t)
    if r.rc == 0:
        if produced != ref:
            return "silent-difference", ""
        return None
    if not haserr:
        return "nonzero-without-diagnostic", ""
    return None


def al_in_header(data, off):
    """is byte `off` of the ar archive part of the archive magic, a member header, or the header / section table of a member?"""
    if off < 8:
        return True
    p = 8
    while p + 60 <= len(data):
        try:
            size = int(data[p + 48:p + 58].decode("ascii").strip())
        except ValueError:
            return False
        if p <= off < p + 60 + AO_HEADER:
            return True
        p += 60 + size + (size & 1)
    return False


def _work(args):
    tc, files, refs, jobs, collect = args
    ev = Ev()
    fails = []
    for cname, dmg in jobs:
        target = CONSUMERS[cname][0]
        orig = files[target]
        if dmg[0] == "trunc":
            data = orig[:dmg[1]]
        else:
            off, vk = dmg[1], dmg[2]
            b = orig[off]
            nb = [0, 255, (b + 1) & 255, b ^ 0x80][vk]
            data = orig[:off] + bytes([nb]) + orig[off + 1:]
        key = "%s|%s" % (cname, "|".join(str(x) for x in dmg))
        r, produced = run_consumer(tc, files, cname, data, hashlib.sha256(key.encode()).hexdigest()[:10])
        v = judge(tc, r, produced, refs[cname])
        nt = data != orig
        ev.case(key, nt, sample={"consumer": cname, "file": target, "damage": list(dmg), "outcome": "rc=%s %s" % (r.rc, (r.text()[:120]).replace("\n", " | "))} if nt and len(ev.samples) < 2 else None,
                classes=["consumer_" + cname, "damage_" + dmg[0], "outcome_" + (v[0] if v else ("same" if r.rc == 0 else "refused"))])
        if v is not None:
            # reproduce before reporting (a one-off difference under load is counted as inconclusive, not as a verdict)
            r2, produced2 = run_consumer(tc, files, cname, data, hashlib.sha256((key + "|again").encode()).hexdigest()[:10])
            v2 = judge(tc, r2, produced2, refs[cname])
            if v2 is None or v2[0] != v[0]:
                ev.inconclusive += 1
                continue
            kind, site = v
            region = "body"
            if target.endswith(".ao") and dmg[1] < AO_HEADER:
                region = "header"
            elif target.endswith(".al") and al_in_header(orig, dmg[1]):
                region = "header"
            desc = {"kind": kind, "site": site, "consumer": cname, "damage": dmg[0], "region": region,
                    "what": "%s: %s after %s of %s at %s: %s" % (cname, kind + (" [" + site + "]" if site else ""), dmg[0], target, dmg[1:], r.text()[-160:].replace("\n", " | "))}
            if collect:
                k2 = "%s|%s|%s|%s" % (cname, dmg[0], kind, site)
                s = ev.extra.setdefault("sites", {})
                if k2 not in s:
                    s[k2] = {"n": 0, "hex": "", "len": 0, "ex": list(dmg)}
                s[k2]["n"] += 1
                continue
            fails.append(Fail(desc, {"consumer": cname, "damage": list(dmg)}))
            from .. import findings
            if findings.match(ID, desc) is None:
                break
    return result(ev, fails)


def damages(files, quick, seed):
    import random
    rnd = random.Random(seed)     # seeded offsets only: the set of cases is a pure function of VERIF_SEED
    jobs = []
    for cname, (target, _, _) in CONSUMERS.items():
        n = len(files[target])
        head = min(n, 220)
        if cname == "ao2c":
            offs = list(range(0, n))          # every truncation length, both tiers
        else:
            stride = 5 if quick else 1
            offs = sorted(set(list(range(0, head, 1 if not quick else 3)) + list(range(head, n, stride)) + [n - 1]))
        jobs += [(cname, ("trunc", o)) for o in offs]
        so = list(range(0, head, 1 if not quick else 2)) + [rnd.randrange(head, n) for _ in range(150 if quick else 3000)] if n > head else list(range(n))
        for o in so:
            for vk in ((0, 1, 2, 3) if not quick else (rnd.randrange(4),)):
                jobs.append((cname, ("subst", o, vk)))
    return jobs


def run(ctx):
    base = os.path.join(R.WORK, "c17-base-%d" % os.getpid())
    files = prepare(ctx.tc, base)
    if files is None:
        print("INFRA-ERROR could not build the intact library files")
        raise SystemExit(2)
    try:
        refs = {}
        for cname in CONSUMERS:
            r, produced = run_consumer(ctx.tc, files, cname, files[CONSUMERS[cname][0]], "ref-" + cname)
            if not r.ok:
                print("INFRA-ERROR intact consumer %s fails: %s" % (cname, r.text()[-300:]))
                raise SystemExit(2)
            refs[cname] = produced
        jobs = damages(files, ctx.quick, ctx.seed)
        ctx.ev.extra["file_sizes"] = {k: len(v) for k, v in files.items() if not k.endswith(".as")}
        chunks = [jobs[i::64] for i in range(64)]
        collect = bool(os.environ.get("VERIF_C17_COLLECT"))
        ctx.pmap(_work, [(ctx.tc, files, refs, ch, collect) for ch in chunks], stop_on_fail=True)
    finally:
        shutil.rmtree(base, ignore_errors=True)


def replay(ctx, case):
    base = os.path.join(R.WORK, "c17-rbase-%d" % os.getpid())
    files = prepare(ctx.tc, base)
    try:
        cname = case["consumer"]
        r, ref = run_consumer(ctx.tc, files, cname, files[CONSUMERS[cname][0]], "rref")
        res = _work((ctx.tc, files, {cname: ref}, [(cname, tuple(case["damage"]))], False))
        if res["fails"]:
            f = res["fails"][0]
            return Fail(f["desc"], case, f["what"])
        return None
    finally:
        shutil.rmtree(base, ignore_errors=True)
