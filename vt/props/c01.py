"""C01 Programs produce the result the language defines: generated typed programs vs an independent reference evaluator."""
import hashlib, os

from .. import progcheck as PC
from .. import run as R
from ..check import Fail, result, derive_seed, hyp_run
from ..evidence import Ev
from ..gen import prog as P

ID = "C01"
LEVEL = "exploration"
RULE = ("case = abstract program drawn from the typed grammar of vt/gen/prog.py (feature mix, sizes and literals drawn per case), rendered to Aldor "
        "source against libaldor and run (a) by aldor -Ginterp and (b) as gcc-linked C executable, both at the default -Q1; oracle = the Python "
        "reference evaluator of the same tree: '@ ' output lines equal as sequences and exit class (success / failure) equal. A program the "
        "compiler rejects or crashes on is a failure too. Non-trivial = the program prints >= 3 lines, >= 2 of them distinct, and uses >= 3 "
        "feature classes; distinct = hash of the abstract tree.")
ASSUMPTIONS = ["the reference evaluator (vt/gen/prog.py) defines the expected result for the sub-language of DESIGN.md section 3; programs whose result the "
               "language does not fix (MI overflow, 0^0, division by zero) are discarded and counted as out_of_model",
               "exit status is compared as a class (0 / non-zero): the interpreter exits 1 and C executables 2 on the same uncaught exception"]


def sha(src):
    return hashlib.sha256(src.encode()).hexdigest()[:16]


def check_program(tc, pr, ev, routes=("interp", "c"), window=2 ** 62, opts=("-Q1",)):
    try:
        lines, cls, st = P.evaluate(pr, window)
    except P.OutOfModel as e:
        ev.classes["out_of_model"] += 1
        return None
    src = P.render(pr)
    h = P.phash(pr)
    feats = pr[4]
    nt = len(lines) >= 3 and len(set(lines)) >= 2 and len(feats) >= 3
    fail = None
    with R.WorkDir("c01-" + h) as wd:
        PC.write_prog(wd, src)
        for route in routes:
            o = PC.run_interp(tc, wd, "p.as", opts) if route == "interp" else PC.run_c(tc, wd, "p.as", opts)
            ev.classes["route_%s_%s" % (route, o.kind)] += 1
            if o.kind != "ran":
                fail = Fail({"kind": o.kind, "route": route, "site": o.site, "src_sha": sha(src), "what": "valid program: %s on route %s: %s" % (o.kind, route, o.brief()[:300])},
                            {"src": src, "route": route, "opts": list(opts), "expect_lines": lines, "expect_cls": cls, "got": o.brief()})
                break
            if o.lines != lines or o.cls != cls:
                i, a, b = PC.first_diff(lines, o.lines)
                what = "route %s: exit class want %s got %s; first difference at line %d: expected %r got %r" % (route, cls, o.cls, i, a, b)
                fail = Fail({"kind": "mismatch", "route": route, "src_sha": sha(src), "what": what}, {"src": src, "route": route, "opts": list(opts), "expect_lines": lines, "expect_cls": cls, "got_lines": o.lines, "got_cls": o.cls})
                break
    ev.case(h, nt, sample={"source": src, "expected": lines[:12], "exit": cls} if nt else None,
            classes=["cls_" + cls] + ["feat_" + f for f in feats] + [k for k, v in st.items() if v])
    return fail


def _worker(args):
    tc, seed, idx, n = args
    ev = Ev()

    def evaluate(pr, ev):
        f = check_program(tc, pr, ev)
        if f is not None:   # reproduce before reporting
            f2 = check_program(tc, pr, Ev())
            if f2 is None or f2.desc.get("kind") != f.desc.get("kind"):
                ev.inconclusive += 1
                return None
        return f
    f = hyp_run(ID, P.programs(P.Profile()), evaluate, derive_seed(seed, "c01", idx), n, ev)
    return result(ev, [f] if f else [])


def run(ctx):
    n = ctx.n(45, 600)
    ctx.pmap(_worker, [(ctx.tc, ctx.seed, i, n) for i in range(16)])


def replay(ctx, case):
    """case: concrete source + expectation; no generator in the loop"""
    with R.WorkDir("c01r") as wd:
        PC.write_prog(wd, case["src"])
        route = case.get("route", "interp")
        opts = case.get("opts", ["-Q1"])
        o = PC.run_interp(ctx.tc, wd, "p.as", opts) if route == "interp" else PC.run_c(ctx.tc, wd, "p.as", opts)
        if o.kind != "ran":
            return Fail({"kind": o.kind, "route": route, "site": o.site, "src_sha": sha(case["src"]), "what": "valid program: %s on route %s: %s" % (o.kind, route, o.brief()[:300])}, case)
        if o.lines != case["expect_lines"] or o.cls != case["expect_cls"]:
            i, a, b = PC.first_diff(case["expect_lines"], o.lines)
            return Fail({"kind": "mismatch", "route": route, "src_sha": sha(case["src"]), "what": "route %s: exit class want %s got %s; first difference at line %d: expected %r got %r" % (route, case["expect_cls"], o.cls, i, a, b)}, case)
    return None
