"""C11 Big-integer arithmetic is exact: libFuzzer (structure-aware) + exhaustive boundary product, oracle = GMP."""
import os, re, shutil, subprocess

from .. import harness
from .. import run as R
from ..check import Fail, result, derive_seed
from ..evidence import Ev

ID = "C11"
LEVEL = "exploration"
RULE = ("cases = (operation, operands) decoded from fuzzer bytes (shape selectors: raw bytes <= 4000 bits, 2^k+d, all-ones digits, "
        "single high bit per digit, alternating, immediate boundary 2^60..2^65 +-4, digit patterns) plus the deterministic product of all "
        "values within +-2 of 2^k (both signs) x all pairs x every binary op; every result is compared with GMP via two independent "
        "read-outs (16-bit places and decimal string) and must compare equal to the same value built independently; non-trivial = at "
        "least one operand needs the allocated (non-immediate) representation and the op is not a comparison of equal values; "
        "distinct_nontrivial is the harness's own counter of such (op, operands) evaluations (product cases are distinct by "
        "construction; fuzz cases are counted per execution that added coverage or not, so the count is an upper bound there and the "
        "product part alone is reported separately as product_nontrivial)")
ASSUMPTIONS = ["GMP (libgmp 6) is the arithmetic reference", "bintMod's contract is that of fiBIntRem (sign of dividend), as implemented and used by the runtime",
               "bit length of 0 is 1 (repository's intLength convention, same as mpz_sizeinbase)",
               "exception paths (division by zero, negative exponent) are outside the domain",
               "storage comes from malloc (-DSTO_USE_MALLOC) so that ASan sees every block"]
EXHAUSTIVE = {"quick": False, "thorough": False}


def _stats(path):
    d = {}
    last = []
    try:
        inl = False
        for line in open(path, errors="replace"):
            line = line.rstrip("\n")
            if line == "last_case_begin":
                inl = True
            elif line == "last_case_end":
                inl = False
            elif inl:
                last.append(line)
            elif "=" in line:
                k, v = line.split("=", 1)
                if v.isdigit():
                    d[k] = int(v)
    except FileNotFoundError:
        pass
    return d, "\n".join(last)


def _parse_fail(out):
    m = re.search(r"BIGINT-FAIL op=(\S+) what=(\S+)\n((?:.*\n)*?)(?=evals=|\Z)", out)
    if not m:
        return None
    return m.group(1), m.group(2), m.group(3)


def _case_from_text(txt, opname=None):
    c = {}
    for line in txt.split("\n"):
        if "=" in line:
            k, v = line.split("=", 1)
            if k in ("op", "a", "b", "c", "n"):
                c[k] = v
    if opname and "op" not in c:
        c["op"] = opname
    return c


def _product_worker(args):
    binp, shard, nsh, kmax, kstride, wd = args
    ev = Ev()
    os.makedirs(wd, exist_ok=True)
    sf = os.path.join(wd, "pstats-%d.txt" % shard)
    r = R.run([binp, str(shard), str(nsh), str(kmax), str(kstride)], env={"VERIF_STATS_FILE": sf}, cpu=3000, as_limit=0)
    st, last = _stats(sf)
    ev.evaluations = st.get("evals", 0)
    ev.extra["product_evals"] = st.get("evals", 0)
    ev.extra["product_nontrivial"] = st.get("nontrivial", 0)
    ev.extra["domain_excluded"] = st.get("domain_skipped", 0)
    for k, v in st.items():
        if k.startswith("op_"):
            ev.classes["product_" + k] += v
    ev.extra["_nt"] = st.get("nontrivial", 0)
    fails = []
    out = r.text()
    if "PRODUCT-DONE" not in out:
        pf = _parse_fail(out)
        case = _case_from_text(last)
        what = "boundary product: %s" % (("%s %s" % (pf[0], pf[1])) if pf else ("harness died rc=%s sig=%s %s" % (r.rc, r.sig, r.err[-300:].decode("latin-1"))))
        fails.append(Fail({"kind": "product", "op": pf[0] if pf else "?", "what": what, "opclass": case.get("op", "?")}, case, what))
    elif shard == 0:
        ev.samples.append({"product_last_case": last[:600]})
    return result(ev, fails)


def _fuzz_worker(args):
    binp, idx, seed, runs, chunks, wd = args
    ev = Ev()
    d = os.path.join(wd, "fz-%d" % idx)
    shutil.rmtree(d, ignore_errors=True)
    os.makedirs(os.path.join(d, "corpus"))
    fails = []
    tot = {}
    last = ""
    for ch in range(chunks):
        sf = os.path.join(d, "stats.txt")
        if os.path.exists(sf):
            os.unlink(sf)
        s = derive_seed(seed, "c11", idx, ch)
        cmd = ["setarch", "-R", binp, "-seed=%d" % s, "-runs=%d" % runs, "-max_len=1400", "-detect_leaks=0", "-entropic=0",
               "-rss_limit_mb=7000", "-artifact_prefix=" + d + "/", "-print_final_stats=0", os.path.join(d, "corpus")]
        r = R.run(cmd, cwd=d, env={"VERIF_STATS_FILE": sf, "ASAN_OPTIONS": "detect_leaks=0:abort_on_error=0"}, cpu=6000, as_limit=0)
        st, last = _stats(sf)
        for k, v in st.items():
            tot[k] = tot.get(k, 0) + v
        allout = r.text() + r.err.decode("latin-1")
        arts = [f for f in os.listdir(d) if f.startswith("crash-") or f.startswith("leak-")]
        pf = _parse_fail(allout)
        if pf or arts or (r.rc not in (0,) and "out-of-memory" not in allout and not any(f.startswith("oom-") for f in os.listdir(d))):
            case = _case_from_text(pf[2] if pf else last, None)
            case.update(_case_from_text(last))
            if pf:
                what = "fuzz: %s %s" % (pf[0], pf[1])
            else:
                m = re.search(r"ERROR: AddressSanitizer: (\S+).*?\n\s+#0 \S+ in (\S+)", allout, re.S)
                what = "fuzz: memory error %s in %s" % (m.group(1), m.group(2)) if m else "fuzz: target died rc=%s sig=%s" % (r.rc, r.sig)
            fails.append(Fail({"kind": "fuzz", "op": pf[0] if pf else "asan", "what": what, "opclass": case.get("op", "?")}, case, what))
            break
    ev.evaluations = tot.get("evals", 0)
    ev.extra["fuzz_evals"] = tot.get("evals", 0)
    ev.extra["fuzz_nontrivial"] = tot.get("nontrivial", 0)
    ev.extra["domain_excluded"] = tot.get("domain_skipped", 0)
    ev.extra["_nt"] = tot.get("nontrivial", 0)
    for k, v in tot.items():
        if k.startswith("op_"):
            ev.classes["fuzz_" + k] += v
    if last and idx < 3:
        ev.samples.append({"fuzz_last_case": last[:700]})
    shutil.rmtree(d, ignore_errors=True)
    return result(ev, fails)


def run(ctx):
    prod = harness.bigint_product(ctx.tc)
    fuzz = harness.bigint_fuzz(ctx.tc)
    wd = os.path.join(R.WORK, "c11-%d" % os.getpid())
    shutil.rmtree(wd, ignore_errors=True)
    os.makedirs(wd)
    try:
        # deterministic boundary product: all values within +-2 of 2^k
        kmax, stride = (200, 1) if ctx.quick else (520, 1)
        ctx.pmap(_product_worker, [(prod, i, 16, kmax, stride, wd) for i in range(16)])
        if not ctx.fails:
            runs, chunks = (ctx.n(40000, 150000), 1 if ctx.quick else ctx.n(4, 4))
            ctx.pmap(_fuzz_worker, [(fuzz, i, ctx.seed, runs, chunks, wd) for i in range(16)])
    finally:
        shutil.rmtree(wd, ignore_errors=True)
    nt = ctx.ev.extra.pop("_nt", 0)
    ctx.ev.nontrivial = set(range(nt))   # harness-side counter (see RULE)


def replay(ctx, case):
    binp = harness.bigint_product(ctx.tc)
    with R.WorkDir("c11r") as wd:
        p = os.path.join(wd, "case.txt")
        open(p, "w").write("".join("%s=%s\n" % (k, case[k]) for k in ("op", "a", "b", "c", "n") if k in case))
        r = R.run([binp, "--replay", p], cpu=120, as_limit=0)
        out = r.text()
        if "REPLAY-PASS" in out:
            return None
        pf = _parse_fail(out)
        what = "replay: %s" % (("%s %s" % (pf[0], pf[1])) if pf else "harness died rc=%s sig=%s" % (r.rc, r.sig))
        return Fail({"kind": "replay", "op": pf[0] if pf else "?", "what": what, "opclass": case.get("op", "?")}, case, what)
