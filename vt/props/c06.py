"""C06 Ill-typed programs are rejected, well-typed ones accepted: single-fault mutants of generated programs at every eligible site."""
import hashlib, os, re

from .. import aldor
from .. import progcheck as PC
from .. import run as R
from ..check import Fail, result, derive_seed, hyp_run
from ..evidence import Ev
from ..gen import prog as P
from hypothesis import strategies as st

ID = "C06"
LEVEL = "exploration"
RULE = ("case = generated well-typed program, compiled as is (must be accepted: exit 0, no (Error) line, .ao .c .fm written) and once per (catalogue "
        "entry, site): M1 argument of a nominal type no operation accepts, M2a/M2b too few / too many arguments, M3 undefined name, M4 ambiguous "
        "name assigned to an undeclared variable, M5 assignment to a constant, M6 wrong return type, M7 domain lacking an export of its category, "
        "M8 operation the parameter's category lacks, M9 required export implemented only under a condition, M10/M11/M12 a name imported from two "
        "instances of one parametrised domain / two parameters of one category / file level and function level, used unqualified; M13/M13b assignment to a file-level constant through one / two nested free declarations, M14/M14b a category with two exports of "
        "one name and a default for one of them whose domain omits the other; each of M9..M14 "
        "has a well-typed twin (export conditional too; use qualified with $) that must be accepted; statement faults are planted at every position of the main block and of every function "
        "body (a seeded sample of the sites in the quick tier). A mutant must give exit != 0, >= 1 (Error) line with a position, and none of .ao .c "
        ".fm .lsp. Non-trivial = the program has >= 10 statements and the fault is not at position 0 of main; distinct = (program, entry, site).")
ASSUMPTIONS = ["each catalogue fault is illegal by construction (nominal domain TokQ, fresh identifiers); no particular message text is demanded"]
OUTS = ("p.ao", "p.c", "p.fm", "p.lsp")
POS = re.compile(r"\[L\d+ C\d+\]")


def compile_src(tc, src, tag):
    with R.WorkDir("c06-" + tag) as wd:
        PC.write_prog(wd, src)
        r = aldor.compile_(tc, wd, ["p.as"], ["-Fao", "-Fc", "-Ffm", "-Flsp"], cpu=60)
        files = [o for o in OUTS if os.path.exists(os.path.join(wd, o))]
    return r, files


def check_accept(tc, src, h):
    r, files = compile_src(tc, src, h)
    t = r.text()
    if r.cpu_hit or "Exceeded time limit" in t:
        return Fail({"kind": "hang", "what": "well-typed program: compiler exceeded the CPU limit"}, {"src": src, "expect": "accept"})
    if aldor.has_fault(r):
        site = aldor.fault_site(tc, t)
        return Fail({"kind": "crash", "site": site, "what": "well-typed program: compiler fault [%s]" % site}, {"src": src, "expect": "accept"})
    if r.rc != 0 or aldor.has_error(t):
        return Fail({"kind": "rejected", "what": "well-typed program rejected: %s" % t[:300].replace("\n", " | ")}, {"src": src, "expect": "accept"})
    if len(files) != len(OUTS):
        return Fail({"kind": "missing-output", "what": "well-typed program accepted but outputs missing: have %s" % files}, {"src": src, "expect": "accept"})
    return None


def check_reject(tc, src, kind, h):
    r, files = compile_src(tc, src, h)
    t = r.text()
    case = {"src": src, "expect": "reject", "mutant": kind}
    if r.cpu_hit or "Exceeded time limit" in t:
        return Fail({"kind": "hang", "mutant": kind, "what": "mutant %s: compiler exceeded the CPU limit" % kind}, case)
    if aldor.has_fault(r):
        site = aldor.fault_site(tc, t)
        return Fail({"kind": "crash", "mutant": kind, "site": site, "what": "mutant %s: compiler fault [%s] instead of a diagnostic" % (kind, site)}, case)
    errs = [l for l in t.split("\n") if "(Error)" in l or "(Fatal Error)" in l]
    if r.rc == 0 or not errs:
        return Fail({"kind": "accepted", "mutant": kind, "what": "ill-typed mutant %s accepted (exit %d, %d error lines)" % (kind, r.rc, len(errs))}, case)
    if not any(POS.search(l) for l in errs):
        return Fail({"kind": "no-position", "mutant": kind, "what": "mutant %s rejected without a source position: %s" % (kind, errs[0][:120])}, case)
    if files:
        return Fail({"kind": "output-written", "mutant": kind, "what": "mutant %s rejected but output files were written: %s" % (kind, files)}, case)
    return None


def _worker(args):
    tc, seed, idx, n, persite = args
    ev = Ev()
    strat = st.tuples(P.programs(P.Profile(abnormal=False)), st.randoms(use_true_random=False))

    def evaluate(case, ev):
        pr, rnd = case
        src = P.render(pr)
        h = P.phash(pr)
        f = check_accept(tc, src, h)
        ev.case(h + "|accept", False, classes=["welltyped_" + ("accepted" if f is None else f.desc["kind"])])
        if f is not None:
            return f if check_accept(tc, src, h + "r") is not None else None
        sites = P.mutant_sites(pr)
        nst = len(pr[2])
        # the well-typed twins of M9..M12 must be accepted: the catalogue's declarations themselves are legal
        for kind in P.TWIN_KINDS:
            site = sites[rnd.randrange(len(sites))]
            wsrc, _ = P.render_mutant(pr, kind, site)
            key = "%s|%s|%s" % (h, kind, site)
            f = check_accept(tc, wsrc, hashlib.sha256(key.encode()).hexdigest()[:12])
            ev.case(key, nst >= 10, classes=["twin_" + kind, "twin_accepted" if f is None else "twin_" + f.desc["kind"]])
            if f is not None:
                f.desc["twin"] = kind
                return f
        for kind in P.MUTANT_KINDS:
            tops, stmt, tok = P.mutant_parts(kind)
            chosen = [sites[0]] if stmt is None else ([sites[rnd.randrange(len(sites))] for _ in range(persite)] if persite else sites)
            for site in chosen:
                msrc, tok = P.render_mutant(pr, kind, site)
                key = "%s|%s|%s" % (h, kind, site)
                f = check_reject(tc, msrc, kind, hashlib.sha256(key.encode()).hexdigest()[:12])
                nt = nst >= 10 and site != ("main", 0)
                ev.case(key, nt, sample={"mutant": kind, "site": list(site), "source_tail": msrc[-500:]} if nt else None,
                        classes=["mutant_" + kind, "site_" + site[0], "rejected" if f is None else "bad_" + f.desc["kind"]])
                if f is not None:
                    return f
        return None
    f = hyp_run(ID, strat, evaluate, derive_seed(seed, "c06", idx), n, ev)
    return result(ev, [f] if f else [])


def run(ctx):
    n = ctx.n(16, 90)
    ctx.pmap(_worker, [(ctx.tc, ctx.seed, i, n, 3 if ctx.quick else 0) for i in range(16)])


def replay(ctx, case):
    f = check_accept(ctx.tc, case["src"], "replay") if case["expect"] == "accept" else check_reject(ctx.tc, case["src"], case.get("mutant", "?"), "replay")
    if f is not None:
        f.replay = case
    return f
