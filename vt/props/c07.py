"""C07 The compiler is total on arbitrary source text and reports honestly."""
import hashlib, os, re

from .. import aldor, corpus
from .. import run as R
from ..check import Fail, result, derive_seed, hyp_run
from ..evidence import Ev
from ..gen import prog as P
from hypothesis import strategies as st

ID = "C07"
LEVEL = "exploration"
RULE = ("case = recipe (base, mutations): base in {empty, random bytes, pinned corpus file, generated program}; mutations in {delete / duplicate / "
        "swap / insert token, drop or insert a bracket, break pile indentation, cut a string or comment terminator, insert a byte >= 0x80, a NUL or "
        "'_'+byte, very long line, deep nesting, #include of self or of a missing file, unbalanced #if/#endif, #line with a huge number, #pile "
        "toggles}; the text is compiled with aldor -Fap -Fao. Oracle for every input: the process ends by exit (no signal), prints no fault / "
        "internal-bug text, stays within the CPU limit (reproduced 3 times), exits non-zero exactly when it printed an (Error)/(Fatal Error) line; "
        "a second family appends / inserts one of 19 certainly invalid constructs (unterminated #if chains in 6 shapes, stray #endif/#else/#elseif, "
        "#include of a missing file, #error, unterminated string, unbalanced brace / parenthesis, circular macros in 4 shapes) into each generated "
        "valid program: it must be rejected with an (Error) line, non-zero exit, no .ao, no fault. Non-trivial = the input got past the scanner (a non-empty .ai "
        "was written... approximated by: no scanner-level error) and differs from its base; distinct = hash of the input bytes.")
ASSUMPTIONS = ["CPU limit 20 s per compilation (median 0.1 s); a hit must reproduce 3 times to count as a hang",
               "'known invalid' is asserted only for mutations whose invalidity is lexical and certain"]
CPU = 20

TOK = re.compile(rb'"(?:_.|[^"_\n])*"|--[^\n]*|\+\+[^\n]*|[A-Za-z_%][A-Za-z0-9_!?]*|\d+|\s+|.', re.S)
SNIPPETS = [b"{", b"}", b"(", b")", b"[", b"]", b";", b",", b"==", b":=", b"==>", b"+->", b"->", b":", b"$", b"@", b"::", b"if", b"then", b"else", b"for", b"in",
            b"repeat", b"while", b"return", b"with", b"add", b"where", b"import from", b"define", b"export", b"extend", b"default", b"try", b"catch",
            b"yield", b"generate", b"never", b"%", b"Rep", b"per", b"rep", b"macro", b"#pile", b"#endpile", b"#if X", b"#endif", b"#else", b"\n", b"\t",
            b"_", b"__", b'_"', b"'", b'"', b"\\", b"..", b"1..", b"16rFF", b"0", b"1e400", b"1.5", b"@ ", b"=>", b"<<", b"^", b"~", b"#", b"+++ doc\n"]


def tokens(b):
    return TOK.findall(b)


@st.composite
def recipes(draw, nbases):
    base = draw(st.sampled_from(["empty", "bytes", "corpus", "corpus", "corpus", "gen", "gen"]))
    bi = draw(st.integers(0, max(nbases - 1, 0)))
    raw = draw(st.binary(min_size=0, max_size=200)) if base == "bytes" else b""
    n = draw(st.integers(0 if base == "bytes" else 1, 6))
    muts = []
    for _ in range(n):
        kind = draw(st.sampled_from(["del", "dup", "swap", "ins", "ins", "dropbr", "insbr", "indent", "cutstr", "hibyte", "nul", "esc", "longline", "nest",
                                     "incself", "incmissing", "ifdef", "line", "pile", "trunc", "delrange"]))
        muts.append((kind, draw(st.integers(0, 10 ** 6)), draw(st.integers(0, len(SNIPPETS) - 1)), draw(st.integers(0, 255))))
    return (base, bi, raw, tuple(muts))


def apply_recipe(rec, bases, gens):
    base, bi, raw, muts = rec
    certain_invalid = False
    if base == "empty":
        data = b""
    elif base == "bytes":
        data = raw
    elif base == "corpus":
        data = bases[bi % len(bases)] if bases else b""
    else:
        data = gens[bi % len(gens)] if gens else b""
    orig = data
    for kind, pos, sn, byte in muts:
        toks = tokens(data)
        nt = len(toks)
        i = pos % nt if nt else 0
        if kind == "del" and nt:
            del toks[i]
        elif kind == "dup" and nt:
            toks.insert(i, toks[i])
        elif kind == "swap" and nt > 1:
            j = (i + 1 + byte) % nt
            toks[i], toks[j] = toks[j], toks[i]
        elif kind == "ins":
            toks.insert(i, b" " + SNIPPETS[sn] + b" ")
        elif kind == "dropbr" and nt:
            idx = [k for k, t in enumerate(toks) if t in (b"{", b"}", b"(", b")", b"[", b"]")]
            if idx:
                del toks[idx[pos % len(idx)]]
        elif kind == "insbr":
            toks.insert(i, [b"{", b"}", b"(", b")", b"[", b"]"][byte % 6])
        elif kind == "indent" and nt:
            idx = [k for k, t in enumerate(toks) if b"\n" in t]
            if idx:
                k = idx[pos % len(idx)]
                toks[k] = toks[k] + b" " * (byte % 9)
        elif kind == "cutstr" and nt:
            idx = [k for k, t in enumerate(toks) if t.startswith(b'"') and len(t) > 1]
            if idx:
                k = idx[pos % len(idx)]
                toks[k] = toks[k][:-1]
        elif kind == "hibyte":
            toks.insert(i, bytes([128 + byte % 128]))
        elif kind == "nul":
            toks.insert(i, b"\0")
        elif kind == "esc":
            toks.insert(i, b"_" + bytes([byte]))
        elif kind == "longline":
            toks.insert(i, b" x" * (5000 + 200 * (byte % 100)))
        elif kind == "nest":
            d = 50 + 20 * (byte % 100)
            toks.insert(i, b"(" * d + b"1" + b")" * d)
        elif kind == "incself":
            toks.insert(i, b'\n#include "in.as"\n')
        elif kind == "incmissing":
            toks.insert(i, b'\n#include "nosuchfile%d.as"\n' % byte)
        elif kind == "ifdef":
            toks.insert(i, [b"\n#if Foo\n", b"\n#endif\n", b"\n#else\n", b"\n#elseif Bar\n", b"\n#assert Foo\n", b"\n#unassert Foo\n"][byte % 6])
        elif kind == "line":
            toks.insert(i, b'\n#line %d "f%d.as"\n' % ([0, 1, 65535, 65536, 2 ** 31 - 1, 2 ** 31, 2 ** 40][byte % 7], byte % 3))
        elif kind == "pile":
            toks.insert(i, [b"\n#pile\n", b"\n#endpile\n"][byte % 2])
        elif kind == "trunc" and nt:
            toks = toks[:i]
        elif kind == "delrange" and nt:
            del toks[i:i + 1 + byte % 20]
        data = b"".join(toks)
    return data, data != orig


def check_input(tc, data, ev, lib="aldor", confirm=True):
    h = hashlib.sha256(data).hexdigest()[:16]
    with R.WorkDir("c07-" + h) as wd:
        R.write(os.path.join(wd, "in.as"), data)
        r = aldor.compile_(tc, wd, ["in.as"], ["-Fap", "-Fao"], lib=lib, cpu=CPU)
        t = r.text()
        err = r.err.decode("latin-1")
        haserr = aldor.has_error(t)
        what = None
        kind = None
        if r.cpu_hit or "Exceeded time limit imposed" in t:
            kind, what = "hang", "compilation exceeded the CPU limit of %d s" % CPU
        elif r.sig is not None:
            kind, what = "signal", "compiler killed by signal %d" % r.sig
        elif aldor.has_fault(r):
            kind, what = "fault", "the compiler faulted (signal handler / internal bug / allocator error)"
        elif (r.rc != 0) != haserr:
            kind, what = "dishonest-status", "exit status %d but %s error message printed" % (r.rc, "an" if haserr else "no")
        site = aldor.fault_site(tc, t) if kind in ("fault", "signal") else ""
        phase = aldor.fault_phase(tc, t) if kind in ("fault", "signal") else ""
    ev.classes["rc_nonzero" if r.rc != 0 else "rc_zero"] += 1
    if what is None:
        return None, haserr, r.rc
    return Fail({"kind": kind, "site": site, "phase": phase, "accepted": "no" if haserr else "yes", "what": "%s [%s] on input of %d bytes: %s" % (what, site, len(data), (t[-200:] + " || stderr: " + err[-150:]).replace("\n", " | "))},
                {"input_hex": data.hex(), "lib": lib}), haserr, r.rc


# ---- inputs that are certainly invalid: a generated valid program plus one construct every version of the language rejects
DECL = b"x9Q: MachineInteger := (1@MachineInteger);\n"
CERTAIN = {
    # name: (placement, text); placement: "eof" = appended, "line" = inserted before a drawn line, "top" = inserted before the final "main();"
    "if-eof": ("eof", b"#if FooQ\n" + DECL),
    "if-else-eof": ("eof", b"#assert FooQ\n#if FooQ\n" + DECL + b"#else\ny9Q: MachineInteger := (2@MachineInteger);\n"),
    "if-taken-elseif-eof": ("eof", b"#assert FooQ\n#if FooQ\n" + DECL + b"#elseif BarQ\ny9Q: MachineInteger := (2@MachineInteger);\n"),
    "if-untaken-elseif-eof": ("eof", b"#if FooQ\n" + DECL + b"#elseif BarQ\ny9Q: MachineInteger := (2@MachineInteger);\n"),
    "if-elseif-else-eof": ("eof", b"#assert BarQ\n#if FooQ\n" + DECL + b"#elseif BarQ\n#else\n"),
    "if-nested-eof": ("eof", b"#assert FooQ\n#if FooQ\n#if BarQ\n" + DECL + b"#endif\n"),
    "endif-alone": ("line", b"#endif\n"),
    "else-alone": ("line", b"#else\n"),
    "elseif-alone": ("line", b"#elseif FooQ\n"),
    "include-missing": ("line", b'#include "nonexistent9Q.as"\n'),
    "error-directive": ("line", b'#error "stop here 9Q"\n'),
    "string-open": ("eof", b's9Q: String := "abc;\n'),
    "brace-open": ("eof", b"f9Q(): MachineInteger == { (1@MachineInteger) \n"),
    "brace-close": ("eof", b"f9Q(): MachineInteger == (1@MachineInteger) };\n"),
    "paren-open": ("eof", b"x9Q: MachineInteger := ((1@MachineInteger) + (2@MachineInteger);\n"),
    "macro-self": ("top", b"macro f9Q == f9Q + (1@MachineInteger);\nx9Q: MachineInteger := f9Q;\n"),
    "macro-mutual": ("top", b"macro f9Q == g9Q + (1@MachineInteger);\nmacro g9Q == f9Q * (2@MachineInteger);\nx9Q: MachineInteger := g9Q;\n"),
    "macro-param": ("top", b"macro f9Q(a) == f9Q(a + (1@MachineInteger));\nx9Q: MachineInteger := f9Q((2@MachineInteger));\n"),
    "macro-arrow": ("top", b"f9Q ==> f9Q + (1@MachineInteger);\nx9Q: MachineInteger := f9Q;\n"),
}


def build_certain(src, name, pos):
    placement, text = CERTAIN[name]
    lines = src.split(b"\n")
    if lines and lines[-1] == b"":
        lines.pop()
    if placement == "eof":
        out = lines + [text.rstrip(b"\n")]
    elif placement == "top":
        k = max(i for i, l in enumerate(lines) if l.strip() == b"main();") if any(l.strip() == b"main();" for l in lines) else len(lines)
        out = lines[:k] + [text.rstrip(b"\n")] + lines[k:]
    else:
        k = 3 + pos % max(1, len(lines) - 2)      # after the prelude
        out = lines[:k] + [text.rstrip(b"\n")] + lines[k:]
    return b"\n".join(out) + b"\n"


def check_certain(tc, data, name, ev):
    h = hashlib.sha256(data).hexdigest()[:16]
    with R.WorkDir("c07c-" + h) as wd:
        R.write(os.path.join(wd, "in.as"), data)
        r = aldor.compile_(tc, wd, ["in.as"], ["-Fap", "-Fao"], cpu=CPU)
        t = r.text()
        left = [o for o in ("in.ao",) if os.path.exists(os.path.join(wd, o))]
    case = {"input_hex": data.hex(), "certain": name}
    site = ""
    if r.cpu_hit or "Exceeded time limit imposed" in t:
        kind, what = "hang", "exceeded the CPU limit"
    elif r.sig is not None or aldor.has_fault(r):
        kind, what = "fault", "the compiler faulted instead of reporting the error"
        site = aldor.fault_site(tc, t) or ("signal%s" % r.sig)
    elif r.rc == 0 or not aldor.has_error(t):
        kind, what = "invalid-accepted", "exit status %d and %s (Error) line" % (r.rc, "an" if aldor.has_error(t) else "no")
    elif left:
        kind, what = "output-left", "rejected, but %s was written" % left
    else:
        return None
    return Fail({"kind": kind, "site": site, "certain": name, "phase": "front", "accepted": "certainly-invalid",
                 "what": "certainly invalid input (%s): %s: %s" % (name, what, t[-200:].replace("\n", " | "))}, case)


def _certain_worker(args):
    tc, seed, idx, gens = args
    import random
    rnd = random.Random(derive_seed(seed, "c07certain", idx))
    ev = Ev()
    fails = []
    names = sorted(CERTAIN)
    for j, src in enumerate(gens):
        if j % 16 != idx:
            continue
        for name in names:
            data = build_certain(src, name, rnd.randrange(10 ** 6))
            f = check_certain(tc, data, name, ev)
            ev.case("certain|%s|%s" % (name, hashlib.sha256(data).hexdigest()[:12]), True, sample={"certain": name, "input_tail": data[-200:].decode("latin-1")} if len(ev.samples) < 1 else None,
                    classes=["certain_" + name, "certain_rejected" if f is None else "certain_" + f.desc["kind"]])
            if f is not None:
                fails.append(f)
                return result(ev, fails)
    return result(ev, fails)


def _worker(args):
    tc, seed, idx, n, bases, gens = args
    ev = Ev()

    def evaluate(rec, ev):
        data, changed = apply_recipe(rec, bases, gens)
        if len(data) > 400000:
            return None
        f, haserr, rc = check_input(tc, data, ev)
        h = hashlib.sha256(data).hexdigest()[:16]
        nt = changed and rec[0] in ("corpus", "gen")
        ev.case(h, nt, sample={"recipe": [rec[0]] + [m[0] for m in rec[3]], "input_head": data[:300].decode("latin-1")} if nt else None,
                classes=["base_" + rec[0]] + ["mut_" + m[0] for m in rec[3]] + (["diagnosed"] if haserr else ["accepted"]))
        if f is not None and os.environ.get("VERIF_C07_COLLECT"):
            key = "%s|%s" % (f.desc["kind"], f.desc["site"])
            sites = ev.extra.setdefault("sites", {})
            if key not in sites:
                sites[key] = {"n": 0, "hex": data.hex() if len(data) < 3000 else "", "len": len(data)}
            sites[key]["n"] += 1
            if sites[key]["hex"] == "" or (len(data) < sites[key]["len"]):
                sites[key]["hex"] = data.hex() if len(data) < 6000 else sites[key]["hex"]
                sites[key]["len"] = len(data)
            return None
        if f is not None:
            if f.desc["kind"] == "hang":
                again = [check_input(tc, data, Ev())[0] for _ in range(2)]
                if not all(a is not None and a.desc["kind"] == "hang" for a in again):
                    ev.inconclusive += 1
                    return None
            else:
                f2, _, _ = check_input(tc, data, Ev())
                if f2 is None or f2.desc["kind"] != f.desc["kind"]:
                    ev.inconclusive += 1
                    return None
        return f
    f = hyp_run(ID, recipes(max(len(bases), len(gens), 1)), evaluate, derive_seed(seed, "c07", idx), n, ev, shrink_cap=60)
    return result(ev, [f] if f else [])


def load_bases(tc, seed):
    fs = corpus.files(tc)
    bases = []
    for p, lib in fs:
        try:
            bases.append(open(p, "rb").read())
        except OSError:
            pass
    return bases


def gen_sources(seed, n):
    from hypothesis import given, settings, HealthCheck, Phase, seed as hseed
    out = []

    @hseed(derive_seed(seed, "c07gen"))
    @settings(max_examples=n, database=None, deadline=None, suppress_health_check=list(HealthCheck), phases=[Phase.generate])
    @given(P.programs(P.Profile(size=8)))
    def t(pr):
        out.append(P.render(pr).encode())
    t()
    return out


def run(ctx):
    bases = load_bases(ctx.tc, ctx.seed)
    gens = gen_sources(ctx.seed, 40)
    n = ctx.n(1500, 12000)
    ctx.ev.extra["corpus_bases"] = len(bases)
    ctx.pmap(_certain_worker, [(ctx.tc, ctx.seed, i, gens) for i in range(16)])
    if ctx.fails:
        return
    ctx.pmap(_worker, [(ctx.tc, ctx.seed, i, n, bases, gens) for i in range(16)])


def replay(ctx, case):
    data = bytes.fromhex(case["input_hex"])
    if case.get("certain"):
        f = check_certain(ctx.tc, data, case["certain"], Ev())
        if f is not None:
            f.replay = case
        return f
    f, _, _ = check_input(ctx.tc, data, Ev(), lib=case.get("lib", "aldor"))
    if f is not None:
        f.replay = case
    return f
