"""C08 Compiler output is a function of its input only: metamorphic pairs differing in one environmental variation."""
import hashlib, os, shutil

from .. import aldor
from .. import progcheck as PC
from .. import run as R
from ..check import Fail, result, derive_seed, hyp_run
from ..evidence import Ev
from ..gen import prog as P
from hypothesis import strategies as st

ID = "C08"
LEVEL = "exploration"
KINDS = ["ao", "fm", "c", "lsp", "asy", "ap", "java"]
VARIATIONS = ["repeat", "aslr-off", "gc-off", "gc-on", "gcfile", "forced-gc", "other-dir", "big-env", "locale-env", "batch"]
RULE = ("case = (1-2 generated programs, random set of -F outputs from {ao,fm,c,lsp,asy,ap,java}, level -Q1 or -Q3, one variation); the pair of "
        "compilations differs in exactly that variation: plain repeat, setarch -R (ASLR off), -Wno-gc, -Wgc, -Wgcfile, forced collection every k-th "
        "allocation (hook, k in {331,500,777,1000} offset j), another working directory (different absolute path and depth), an environment with a "
        "64 kB extra variable (moves the stack), different LANG/LC_ALL/TZ/HOME, or both files in one invocation versus one invocation each. Oracle: "
        "every emitted file byte-identical and the diagnostic stream identical. Non-trivial = variation is not the plain repeat and the output set "
        "contains ao or c; distinct = (program set hash, options, variation).")
from .. import findings as _F
BATCH_KNOWN = any(f["id"] == "C08-K25-batch-order" for f in _F.known("C08"))
ASSUMPTIONS = ["forced-collection pairs whose forced run itself fails are reported under C09, not here", "message text is compared verbatim (sources are given by relative name in both runs)"]


def collect_outputs(d, names):
    out = {}
    for root, dirs, files in os.walk(d):
        for f in files:
            if f.endswith(".as") or f == "gc.log":
                continue
            p = os.path.join(root, f)
            out[os.path.relpath(p, d)] = open(p, "rb").read()
    return out


def compile_run(tc, d, files, opts, var, side, k=None):
    """side 0 = reference way, side 1 = varied way. returns (stdout text, outputs dict, Res list)"""
    env = {}
    prefix = []
    extra = []
    if side == 1:
        if var == "aslr-off":
            prefix = ["setarch", "-R"]
        elif var == "gc-off":
            extra = ["-Wno-gc"]
        elif var == "gc-on":
            extra = ["-Wgc"]
        elif var == "gcfile":
            extra = ["-Wgc"]
            env["GC_DETAIL"] = ""
        elif var == "forced-gc":
            env["ALDOR_VERIF_GC"] = k
        elif var == "big-env":
            env["VERIF_PADDING"] = "x" * 65000
        elif var == "locale-env":
            env.update({"LANG": "de_DE.UTF-8", "LC_ALL": "tr_TR.UTF-8", "TZ": "Asia/Kathmandu", "HOME": "/nonexistent-home"})
    texts, ress = [], []
    groups = [files] if not (var == "batch" and side == 1) else [[f] for f in files]
    for g in groups:
        r = R.run(prefix + aldor.aldor_cmd(tc, "aldor", opts + extra, g), cwd=d, env=env, cpu=120)
        texts.append(r.text())
        ress.append(r)
    return "".join(texts), collect_outputs(d, files), ress


def check_pair(tc, srcs, opts, var, k, ev, h):
    base = os.path.join(R.WORK, "c08-%d-%s" % (os.getpid(), h))
    shutil.rmtree(base, ignore_errors=True)
    try:
        d0 = os.path.join(base, "a")
        d1 = os.path.join(base, "a") if var != "other-dir" else os.path.join(base, "b", "deeper", "directory-with-a-long-name")
        names = ["p%d.as" % i for i in range(len(srcs))]
        outs = []
        for side, d in ((0, d0), (1, d1)):
            if side == 1 and d1 == d0:
                shutil.rmtree(d0)
            os.makedirs(d, exist_ok=True)
            for n, s in zip(names, srcs):
                R.write(os.path.join(d, n), s)
            outs.append(compile_run(tc, d, names, opts, var, side, k))
        (t0, o0, r0), (t1, o1, r1) = outs
        if any(aldor.has_fault(r) or r.cpu_hit for r in r0):
            ev.classes["reference_run_failed"] += 1
            return None
        if var == "forced-gc" and any(aldor.has_fault(r) or r.cpu_hit or r.rc != r0[i].rc for i, r in enumerate(r1)):
            ev.classes["forced_gc_run_failed_see_C09"] += 1
            return None
        if var == "batch":
            # with several files on one command line the compiler announces each file ("\np0.as:\n"); that banner is not a diagnostic
            import re
            t0 = "\n".join(l for l in t0.split("\n") if l.strip() and not re.fullmatch(r"p\d+\.as:", l.strip()))
            t1 = "\n".join(l for l in t1.split("\n") if l.strip() and not re.fullmatch(r"p\d+\.as:", l.strip()))
        if t0 != t1:
            return Fail({"kind": "diagnostics-differ", "variation": var, "what": "variation %s: diagnostic stream differs: %r vs %r" % (var, t0[-200:], t1[-200:])},
                        {"srcs": srcs, "opts": opts, "variation": var, "k": k})
        if o0 != o1:
            diff = sorted(set(o0) ^ set(o1)) or [n for n in o0 if o0[n] != o1[n]]
            return Fail({"kind": "outputs-differ", "variation": var, "file": diff[0].split(".")[-1], "what": "variation %s: emitted file(s) differ: %s" % (var, diff[:4])},
                        {"srcs": srcs, "opts": opts, "variation": var, "k": k})
        return None
    finally:
        shutil.rmtree(base, ignore_errors=True)


def _worker(args):
    tc, seed, idx, n = args
    ev = Ev()
    strat = st.tuples(st.lists(P.programs(P.Profile(size=8)), min_size=1, max_size=2), st.lists(st.sampled_from(KINDS), min_size=1, max_size=4, unique=True),
                      st.sampled_from(["-Q1", "-Q3"]), st.sampled_from(VARIATIONS), st.sampled_from([331, 500, 777, 1000]), st.integers(0, 330))

    def evaluate(case, ev):
        prs, kinds, lvl, var, k, j = case
        if var == "batch" and BATCH_KNOWN:
            ev.excluded_known["C08-K25-batch-order"] += 1
            var = "repeat"
        if var == "batch" and len(prs) < 2:
            var = "repeat"
        srcs = [P.render(p) for p in prs]
        opts = [lvl] + ["-F" + x for x in kinds]
        h = hashlib.sha256(repr((srcs, opts, var, k, j)).encode()).hexdigest()[:14]
        f = check_pair(tc, srcs, opts, var, "%d:%d" % (k, j), ev, h)
        nt = var != "repeat" and ("ao" in kinds or "c" in kinds)
        ev.case(h, nt, sample={"options": opts, "variation": var, "k": "%d:%d" % (k, j) if var == "forced-gc" else None, "source_tail": srcs[0][-300:]} if nt else None,
                classes=["var_" + var] + ["kind_" + x for x in kinds] + ["level_" + lvl])
        if f is not None:
            f2 = check_pair(tc, srcs, opts, var, "%d:%d" % (k, j), Ev(), h + "r")
            if f2 is None:
                ev.inconclusive += 1
                return None
        return f
    f = hyp_run(ID, strat, evaluate, derive_seed(seed, "c08", idx), n, ev)
    return result(ev, [f] if f else [])


def run(ctx):
    n = ctx.n(10, 350)
    ctx.pmap(_worker, [(ctx.tc, ctx.seed, i, n) for i in range(16)])


def replay(ctx, case):
    f = check_pair(ctx.tc, case["srcs"], case["opts"], case["variation"], case.get("k"), Ev(), "replay")
    if f is not None:
        f.replay = case
    return f
