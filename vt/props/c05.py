"""C05 Saved intermediate forms and separate compilation lose nothing."""
import hashlib, os, re, shutil, subprocess

from .. import aldor, findings
from .. import progcheck as PC
from .. import run as R
from ..check import Fail, result, derive_seed, hyp_run
from ..evidence import Ev
from ..gen import prog as P
from hypothesis import strategies as st

ID = "C05"
LEVEL = "exploration"
RULE = ("case = (generated program with an extreme-constant profile: machine integers around 2^31/2^32/2^62, 400-digit big integers, 2 kB "
        "strings with every escape; level in {-Q0,-Q2,-Q9}). Checks: (1) C, FOAM text and Lisp generated from the saved .ao, from the saved .fm "
        "and from the .ao taken out of an archive (.al, member first / middle / last) equal those generated from the source, byte for byte after "
        "deleting the header line that names the input file; (2) re-saving a loaded .fm reproduces it byte for byte; (3) interpreting the saved "
        ".ao prints what interpreting the source prints; (4) the program split into a library unit (all definitions) and a client unit (main "
        "block, compiled against lb.ao) prints the same on the interpreter and as linked executable. Non-trivial = the FOAM text contains a "
        "constant of an extreme class or the split puts >= 1 call across the unit boundary; distinct = (program, level, form).")
ASSUMPTIONS = ["the only normalisation is the deletion of lines naming the input file (\"... from file ...\", #line, Source) - nothing else is masked",
               "C generated from .fm lacks redundant (FiWord)/(FiClos) casts on reads of imported globals: known finding C05-K5, matched exactly"]
FROMFILE = re.compile(r'^(.*(from|Generated from|generated from|Source|source)\b.*|#line .*|.*\.as".*)$')
K5_KNOWN = any(f["id"] == "C05-K5-fm-casts" for f in findings.known(ID))
CAST = re.compile(r"\((FiWord|FiClos|FiSInt|FiBInt|FiPtr|FiBool|FiArr|FiRec|FiChar|FiDFlo|FiSFlo|FiEnv)\) ?(?=\(\*pG_)")


def k5_norm(t):
    """the known difference of the .fm route: omitted (Fi...) casts (and the line breaks / parentheses that go with them)"""
    t = re.sub(r"\s+", "", t)          # the pretty-printer may break a line inside the parentheses of a cast
    t = re.sub(r"\(Fi[A-Za-z]+\)", "", t)
    return re.sub(r"\((G_\w+)\)", r"\1", t)


WIDE_FM = re.compile(r"\(BCall\s+SIntOr\s+\(BCall\s+SIntShiftUp\s+\(SInt (\d+)\)\s+\(SInt (\d+)\)\)\s+\(SInt (\d+)\)\)")
WIDE_LSP = re.compile(r"\(\|SIntOr\|\s+\(\|SIntShiftUp\|\s+\(the \|SInt\| (\d+)\)\s+\(the \|SInt\| (\d+)\)\)\s+\(the \|SInt\| (\d+)\)\)")
WIDE_C2 = re.compile(r"(?<![\w)])(\d+)L\s*<<\s*(\d+)L\s*\|\s*(\d+)L(?!\w)")
WIDE_C = re.compile(r"\(\s*(\d+)L\s*<<\s*(\d+)L\s*\|\s*(\d+)L\s*\)")


def norm(data, name):
    """drop the header line(s) that record the name of the input file; evaluate the portable re-expression of a machine integer
    wider than 31 bits, (hi << 31 | lo), so that it is compared by value"""
    data = WIDE_C.sub(lambda m: ("%dL" % ((int(m.group(1)) << int(m.group(2))) | int(m.group(3)))).encode(), data.decode("latin-1")).encode("latin-1") if isinstance(data, bytes) and False else data
    text = data.decode("latin-1")
    w64 = lambda v: ((v + 2 ** 63) % 2 ** 64) - 2 ** 63      # machine integers are 64-bit words: the re-expression is evaluated as the C is
    val = lambda m: w64((int(m.group(1)) << int(m.group(2))) | int(m.group(3)))
    for _ in range(4):       # the re-expression nests when the high part is itself wider than 31 bits
        before = text
        text = WIDE_C.sub(lambda m: "%dL" % val(m), text)
        text = WIDE_C2.sub(lambda m: "%dL" % val(m), text)
        text = WIDE_FM.sub(lambda m: "(SInt %d)" % val(m), text)
        text = WIDE_LSP.sub(lambda m: "(the |SInt| %d)" % val(m), text)
        if text == before:
            break
    text = re.sub(r"\((-?\d+L)\)", r"\1", text)
    text = re.sub(r"(?<![\w)])-\s*(-\d+)L(?!\w)", lambda m: "%dL" % w64(-int(m.group(1))), text)
    text = re.sub(r"\(BCall\s+SIntNegate\s+\(SInt (-?\d+)\)\)", lambda m: "(SInt %d)" % w64(-int(m.group(1))), text)
    text = re.sub(r"\(\|SIntNegate\|\s+\(the \|SInt\| (-?\d+)\)\)", lambda m: "(the |SInt| %d)" % w64(-int(m.group(1))), text)
    data = text.encode("latin-1")
    out = []
    for i, l in enumerate(data.decode("latin-1").split("\n")):
        if i < 12 and (("p.as" in l) or ("p.ao" in l) or ("p.fm" in l) or ("lb." in l and "#include" not in l and i < 6)):
            continue
        out.append(l)
    return "\n".join(out)


def gen_outputs(tc, wd, infile, level, extra=()):
    r = aldor.compile_(tc, wd, [infile], [level, "-Fc", "-Ffm=out.fm", "-Flsp"] + list(extra), cpu=120)
    outs = {}
    for n in ("p.c", "out.fm", "p.lsp"):
        p = os.path.join(wd, n)
        outs[n] = open(p, "rb").read() if os.path.exists(p) else None
    return r, outs


def first_line_diff(a, b):
    la, lb = a.split("\n"), b.split("\n")
    for i in range(min(len(la), len(lb))):
        if la[i] != lb[i]:
            return i, la[i][:160], lb[i][:160]
    return min(len(la), len(lb)), "<end>", "<end>"


def check_forms(tc, src, level, ev, h):
    base = os.path.join(R.WORK, "c05-%d-%s" % (os.getpid(), h))
    shutil.rmtree(base, ignore_errors=True)
    try:
        s = os.path.join(base, "src")
        os.makedirs(s)
        PC.write_prog(s, src)
        r0 = aldor.compile_(tc, s, ["p.as"], [level, "-Fao", "-Ffm", "-Fc", "-Flsp"], cpu=120)
        o = PC.classify_compile(tc, r0)
        if o is not None:
            ev.classes["source_compile_" + o.kind] += 1
            if o.kind == "crash" or o.kind == "hang":
                return Fail({"kind": o.kind, "site": o.site, "level": level, "what": "compiling the source: %s" % o.brief()[:200]}, {"src": src, "level": level}), False
            return None, False
        ref = {n: open(os.path.join(s, n), "rb").read() for n in ("p.c", "p.fm", "p.lsp", "p.ao")}
        refn = {"p.c": norm(ref["p.c"], "c"), "out.fm": norm(ref["p.fm"], "fm"), "p.lsp": norm(ref["p.lsp"], "lsp")}
        fm = ref["p.fm"].decode("latin-1")
        nt = bool(re.search(r"\d{12,}", fm)) or len(fm) > 20000
        case = {"src": src, "level": level}
        # from .ao, from .fm, from archive member
        forms = [("ao", "p.ao", ref["p.ao"]), ("fm", "p.fm", ref["p.fm"])]
        for form, fname, data in forms:
            d = os.path.join(base, form)
            os.makedirs(d)
            R.write(os.path.join(d, fname), data)
            r, outs = gen_outputs(tc, d, fname, level)
            ev.classes["form_" + form] += 1
            oo = PC.classify_compile(tc, r)
            if oo is not None:
                return Fail({"kind": "saved-form-" + oo.kind, "form": form, "site": oo.site, "level": level, "what": "generating code from the saved %s fails: %s" % (form, oo.brief()[:250])}, case), nt
            for n in ("p.c", "out.fm", "p.lsp"):
                if outs[n] is None:
                    return Fail({"kind": "missing-output", "form": form, "file": n, "level": level, "what": "from %s: %s not written" % (form, n)}, case), nt
                got = norm(outs[n], n)
                same = got == refn[n]
                raw = outs[n].decode("latin-1")
                if not same and (WIDE_C.search(raw) or WIDE_C2.search(raw) or WIDE_FM.search(raw) or WIDE_LSP.search(raw)):
                    # a re-expressed wide integer changes the line breaks of the pretty-printer: compare modulo white space
                    same = re.sub(r"\s+", "", got) == re.sub(r"\s+", "", refn[n])
                if not same:
                    if form == "fm" and n == "p.c" and k5_norm(refn[n]) == k5_norm(got):
                        if K5_KNOWN:
                            ev.excluded_known["C05-K5-fm-casts"] += 1
                            continue
                        return Fail({"kind": "outputs-differ", "form": "fm", "file": "c", "klass": "K5-casts", "level": level,
                                     "what": "C generated from .fm differs from C generated from the source only by omitted (Fi...) casts"}, case), nt
                    i, a, b = first_line_diff(refn[n], got)
                    return Fail({"kind": "outputs-differ", "form": form, "file": n.split(".")[-1], "klass": "other", "level": level,
                                 "what": "%s generated from the saved %s differs from the one generated from the source at line %d: source %r, saved %r" % (n, form, i, a, b)}, case), nt
            if form == "fm" and outs["out.fm"] != data:
                return Fail({"kind": "fm-resave-differs", "form": "fm", "level": level, "what": "loading p.fm and saving it again does not reproduce it byte for byte"}, case), nt
        # behaviour of the saved .ao
        oi = PC.run_interp(tc, s, "p.as", [level])
        oa = PC.run_interp(tc, os.path.join(base, "ao"), "p.ao", [level, "-laldor"])
        if oi.kind == "ran" and (oa.kind != "ran" or oa.lines != oi.lines or oa.cls != oi.cls):
            return Fail({"kind": "behaviour-differs", "form": "ao", "level": level, "what": "interpreting the saved .ao differs from interpreting the source: %s vs %s" % (oa.brief()[:150], oi.brief()[:100])}, case), nt
        return None, nt
    finally:
        shutil.rmtree(base, ignore_errors=True)


def check_split(tc, pr, level, ev, h):
    lib, cl = P.render_split(pr)
    whole = P.render(pr)
    base = os.path.join(R.WORK, "c05s-%d-%s" % (os.getpid(), h))
    shutil.rmtree(base, ignore_errors=True)
    try:
        w = os.path.join(base, "whole")
        sp = os.path.join(base, "split")
        os.makedirs(w)
        os.makedirs(sp)
        PC.write_prog(w, whole)
        ow = PC.run_interp(tc, w, "p.as", [level])
        if ow.kind != "ran":
            ev.classes["whole_" + ow.kind] += 1
            return None, False
        R.write(os.path.join(sp, "lb.as"), lib)
        R.write(os.path.join(sp, "cl.as"), cl)
        case = {"split": True, "lib": lib, "client": cl, "whole": whole, "level": level}
        rl = aldor.compile_(tc, sp, ["lb.as"], [level, "-Fao", "-Fc"], cpu=120)
        ol = PC.classify_compile(tc, rl)
        if ol is not None:
            ev.classes["lib_unit_" + ol.kind] += 1
            if ol.kind in ("crash", "hang"):
                return Fail({"kind": "split-" + ol.kind, "site": ol.site, "level": level, "what": "compiling the library unit: %s" % ol.brief()[:200]}, case), False
            return None, False      # e.g. a macro-only dependency the library unit cannot satisfy: not a verdict of this property
        oc = PC.run_interp(tc, sp, "cl.as", [level])
        nt = any(dict(f)["name"] in cl for f in dict(pr[1])["funcs"])
        ev.classes["split_interp_" + oc.kind] += 1
        if oc.kind != "ran" or oc.lines != ow.lines or oc.cls != ow.cls:
            i, a, b = PC.first_diff(ow.lines, oc.lines or [])
            return Fail({"kind": "split-behaviour-differs", "route": "interp", "level": level, "site": oc.site,
                         "what": "split program (library unit + client) differs from the single unit on the interpreter: %s; first difference at line %d: whole %r split %r" % (oc.brief()[:120], i, a, b)}, case), nt
        # the same library unit taken out of an archive, as first / middle / last member
        pos = int(h[-1], 16) % 3
        filler = open(os.path.join(sp, "lb.ao"), "rb").read()
        for nm in ("xa.ao", "xb.ao"):
            R.write(os.path.join(sp, nm), filler)
        order = [["lb.ao", "xa.ao", "xb.ao"], ["xa.ao", "lb.ao", "xb.ao"], ["xa.ao", "xb.ao", "lb.ao"]][pos]
        subprocess.run(["ar", "cr", "liblb.al"] + order, cwd=sp, check=True)
        R.write(os.path.join(sp, "cl2.as"), cl.replace('#library LB "lb.ao"', '#library LB "liblb.al"'))
        os.rename(os.path.join(sp, "lb.ao"), os.path.join(sp, "lb.ao.hidden"))
        oal = PC.run_interp(tc, sp, "cl2.as", [level])
        os.rename(os.path.join(sp, "lb.ao.hidden"), os.path.join(sp, "lb.ao"))
        ev.classes["archive_pos_%d_%s" % (pos, oal.kind)] += 1
        if oal.kind != "ran" or oal.lines != ow.lines or oal.cls != ow.cls:
            return Fail({"kind": "split-behaviour-differs", "route": "archive", "level": level, "site": oal.site,
                         "what": "client compiled against the archive (member position %d) differs from the single unit: %s" % (pos, oal.brief()[:200])}, case), nt
        # linked executable from both units
        fr, exe = aldor.build_exe(tc, sp, "cl.as", [level], extra_c=["lb.c"])
        if fr is not None:
            return Fail({"kind": "split-link-fails", "level": level, "what": "linking client and library unit fails: %s" % fr.text()[-300:].replace("\n", " | ")}, case), nt
        e = aldor.run_exe(exe, sp)
        el = aldor.marker_lines(e)
        ecls = "ok" if e.rc == 0 else "fail"
        if e.sig is not None or el != ow.lines or ecls != ow.cls:
            i, a, b = PC.first_diff(ow.lines, el)
            return Fail({"kind": "split-behaviour-differs", "route": "c", "level": level, "what": "split executable differs from the single unit: exit %s/%s sig %s; line %d: whole %r split %r" % (ecls, ow.cls, e.sig, i, a, b)}, case), nt
        return None, nt
    finally:
        shutil.rmtree(base, ignore_errors=True)


def _worker(args):
    tc, seed, idx, n = args
    ev = Ev()
    strat = st.tuples(P.programs(P.Profile(extreme=True, size=9)), st.sampled_from(["-Q0", "-Q2", "-Q2", "-Q9"]), st.sampled_from(["forms", "forms", "split"]))

    def evaluate(case, ev):
        pr, level, mode = case
        try:
            P.evaluate(pr)      # programs whose result the language does not fix, or that grow exponentially, are not compared
        except P.OutOfModel:
            ev.classes["out_of_model"] += 1
            return None
        if level == "-Q9" and P.has_recursion(pr):
            ev.excluded_known["C02-K8-q9-recursion-diverges"] += 1
            level = "-Q2"
        if mode == "split" and P.decls_of(pr).get("tmpls"):
            mode = "forms"      # the stateful templates own file-level variables; they are not split across units
        h = hashlib.sha256(repr((pr, level, mode)).encode()).hexdigest()[:14]
        if mode == "forms":
            src = P.render(pr)
            f, nt = check_forms(tc, src, level, ev, h)
        else:
            f, nt = check_split(tc, pr, level, ev, h)
        ev.case(h, nt, sample={"mode": mode, "level": level, "source_tail": P.render(pr)[-400:]} if nt else None, classes=["mode_" + mode, "level_" + level])
        if f is not None:
            f2, _ = (check_forms(tc, P.render(pr), level, Ev(), h + "r") if mode == "forms" else check_split(tc, pr, level, Ev(), h + "r"))
            if f2 is None:
                ev.inconclusive += 1
                return None
        return f
    f = hyp_run(ID, strat, evaluate, derive_seed(seed, "c05", idx), n, ev)
    return result(ev, [f] if f else [])


def run(ctx):
    n = ctx.n(12, 150)
    ctx.pmap(_worker, [(ctx.tc, ctx.seed, i, n) for i in range(16)])


def replay(ctx, case):
    if case.get("split"):
        # replay from the concrete sources
        base = os.path.join(R.WORK, "c05r-%d" % os.getpid())
        shutil.rmtree(base, ignore_errors=True)
        try:
            w, sp = os.path.join(base, "w"), os.path.join(base, "s")
            os.makedirs(w); os.makedirs(sp)
            PC.write_prog(w, case["whole"])
            R.write(os.path.join(sp, "lb.as"), case["lib"]); R.write(os.path.join(sp, "cl.as"), case["client"])
            ow = PC.run_interp(ctx.tc, w, "p.as", [case["level"]])
            aldor.compile_(ctx.tc, sp, ["lb.as"], [case["level"], "-Fao", "-Fc"], cpu=120)
            oc = PC.run_interp(ctx.tc, sp, "cl.as", [case["level"]])
            if ow.kind == "ran" and (oc.kind != "ran" or oc.lines != ow.lines or oc.cls != ow.cls):
                return Fail({"kind": "split-behaviour-differs", "route": "interp", "level": case["level"], "site": oc.site, "what": "split differs: %s" % oc.brief()[:200]}, case)
            return None
        finally:
            shutil.rmtree(base, ignore_errors=True)
    f, _ = check_forms(ctx.tc, case["src"], case["level"], Ev(), "replay")
    if f is not None:
        f.replay = case
    return f
