"""C19 layers 2 and 3: decimal literals through the folder, the interpreter, the C runtime and saved .ao / .fm files."""
import hashlib, os, struct

from .. import aldor
from .. import run as R
from ..check import Fail, result, derive_seed, hyp_run
from ..evidence import Ev
from hypothesis import strategies as st

HEADER = '''#include "axllib"
import from Machine;
import from SingleInteger, Integer, Boolean, Character, String, DoubleFloat, SingleFloat;
import {
	DFloDissemble: BDFlo -> (BBool, BSInt, Word$Machine, Word$Machine);
	SFloDissemble: BSFlo -> (BBool, BSInt, Word$Machine);
} from Builtin;
pd(i: SingleInteger, x: BDFlo): () == { (sg, ex, w0, w1) := DFloDissemble(x); print << "@ " << i << " " << (sg::Boolean) << " " << (ex::SingleInteger) << " " << ((w0 pretend BSInt)::SingleInteger) << newline }
pf(i: SingleInteger, x: BSFlo): () == { (sg, ex, w0) := SFloDissemble(x); print << "@ " << i << " " << (sg::Boolean) << " " << (ex::SingleInteger) << " " << ((w0 pretend BSInt)::SingleInteger) << newline }
'''


def dbits(sg, ex, w0):
    frac = int.from_bytes(struct.pack("<Q", w0 & (2 ** 64 - 1))[:7], "big") >> 4
    return (1 << 63 if sg else 0) | ((ex + 1023) << 52) | frac


def sbits(sg, ex, w0):
    frac = int.from_bytes(struct.pack("<I", w0 & 0xFFFFFFFF)[:3], "big") >> 1
    return (1 << 31 if sg else 0) | ((ex + 127) << 23) | frac


def parse(r):
    out = {}
    for l in aldor.marker_lines(r):
        p = l.split()
        if len(p) == 5 and p[1].isdigit():
            out[int(p[1])] = (p[2] == "true", int(p[3]), int(p[4]))
    return out


def literal_text(x):
    s = repr(x)
    if "e" in s or "E" in s:
        m, e = s.lower().split("e")
        if "." not in m:
            m += ".0"
        return m + "e" + str(int(e))
    return s if "." in s else s + ".0"


@st.composite
def literals(draw):
    t = draw(unsigned_literals())
    # a negated literal is folded to a negative constant (signed zero included) that the C and FOAM-text writers must keep
    return "-" + t if draw(st.integers(0, 5)) == 0 else t


def lit_expr(t, ty):
    return "(-(%s@%s))" % (t[1:], ty) if t.startswith("-") else "(%s@%s)" % (t, ty)


@st.composite
def unsigned_literals(draw):
    k = draw(st.integers(0, 9))
    if k < 5:
        x = abs(draw(st.floats(allow_nan=False, allow_infinity=False)))
        return literal_text(x)
    if k < 7:
        # many digits: the value is not a shortest representation
        digs = draw(st.text("0123456789", min_size=18, max_size=30))
        ip = draw(st.integers(0, 999))
        e = draw(st.integers(-320, 300))
        return "%d.%se%d" % (ip, digs, e)
    if k < 8:
        bits = draw(st.integers(0, 2 ** 63 - 1))        # any bit pattern, incl. subnormals
        x = struct.unpack(">d", struct.pack(">Q", bits))[0]
        if x != x or x in (float("inf"),):
            x = 1.5
        return literal_text(x)
    if k == 8 and draw(st.booleans()):
        # just above / below the midpoint of two adjacent single-precision values, by less than half an ulp of a double: converting
        # through a double first lands exactly on the midpoint (ties-to-even), a direct single conversion does not
        from decimal import Decimal, getcontext
        getcontext().prec = 200
        bits = draw(st.integers(0x00800000, 0x7F000000))
        lo = struct.unpack(">f", struct.pack(">I", bits))[0]
        hi = struct.unpack(">f", struct.pack(">I", bits + 1))[0]
        mid = (Decimal(lo) + Decimal(hi)) / 2
        eps = Decimal(abs(hi - lo)) / Decimal(2 ** 40)
        v = mid + eps if draw(st.booleans()) else mid - eps
        txt = format(v, ".60e")
        mant, ex = txt.split("e")
        mant = mant.rstrip("0")
        if mant.endswith("."):
            mant += "0"
        return "%se%d" % (mant, int(ex))
    if k < 9:
        # halfway cases between two doubles near 2^53
        n = draw(st.integers(2 ** 53, 2 ** 54))
        return "%d.0" % (n | 1)
    return draw(st.sampled_from(["0.0", "1.0", "0.1", "2.2250738585072014e-308", "2.2250738585072011e-308", "4.9406564584124654e-324", "2.4703282292062328e-324",
                                 "1.7976931348623157e308", "0.0", "0.0", "9007199254740993.0", "0.3", "1.0e23", "8.41e21", "5.0e-324", "123456789012345678901234567890.0"]))


def check_batch(tc, lits, ev, h):
    n = len(lits)
    lines = [HEADER]
    for i, t in enumerate(lits):
        lines.append("pd(%d, %s::BDFlo);" % (i, lit_expr(t, "DoubleFloat")))
        if abs(float(t)) <= 3.4e38:      # a literal beyond the single range has no defined single value
            lines.append("pf(%d, %s::BSFlo);" % (n + i, lit_expr(t, "SingleFloat")))
    src = "\n".join(lines) + "\n"
    with R.WorkDir("c19-" + h) as wd:
        R.write(os.path.join(wd, "f.as"), src)
        routes = {}
        routes["folded"] = aldor.interp(tc, wd, "f.as", ["-Q2", "-Fao", "-Ffm"], lib="axllib", cpu=300)
        try:
            fm = open(os.path.join(wd, "f.fm"), errors="replace").read()
        except OSError:
            fm = ""
        routes["from-ao"] = aldor.interp(tc, wd, "f.ao", ["-Q2", "-laxllib"], lib="axllib", cpu=300) if os.path.exists(os.path.join(wd, "f.ao")) else None
        sub = os.path.join(wd, "fmroute")
        os.makedirs(sub)
        if fm:
            R.write(os.path.join(sub, "f.fm"), fm)
            routes["from-fm"] = aldor.interp(tc, sub, "f.fm", ["-Q2", "-laxllib"], lib="axllib", cpu=300)
        routes["interp"] = aldor.interp(tc, wd, "f.as", ["-Q0"], lib="axllib", cpu=300)
        fr, exe = aldor.build_exe(tc, wd, "f.as", ["-Q0"], lib="axllib")
        routes["c"] = aldor.run_exe(exe, wd) if fr is None else fr
        sub2 = os.path.join(wd, "cq2")      # the folded constants written out as C text
        os.makedirs(sub2)
        R.write(os.path.join(sub2, "f.as"), src)
        fr, exe = aldor.build_exe(tc, sub2, "f.as", ["-Q2"], lib="axllib")
        routes["c-folded"] = aldor.run_exe(exe, sub2) if fr is None else fr
    if aldor.has_error(routes["interp"].text()):
        ev.classes["batch_rejected"] += 1
        return None
    for k in ("from-ao", "from-fm", "folded", "c-folded"):
        r = routes.get(k)
        if r is not None and (aldor.has_error(r.text()) or aldor.has_fault(r)):
            msg = [l for l in r.text().split("\n") if "Error)" in l][:1]
            return Fail({"kind": "route-fails", "route": k, "what": "the saved form cannot be read back / evaluated on route %s: %s" % (k, (msg or [r.text()[-200:]])[0][:300])},
                        {"layer": 3, "literals": list(lits)})
    vals = {k: parse(r) for k, r in routes.items() if r is not None}
    folded_lits = fm.count("(DFlo ") + fm.count("(SFlo ")
    ev.extra["foam_float_literals"] = ev.extra.get("foam_float_literals", 0) + folded_lits
    for i, t in enumerate(lits):
        for idx, kind in ((i, "DFlo"), (n + i, "SFlo")):
            got = {k: v.get(idx) for k, v in vals.items()}
            if kind == "SFlo":   # only the low 32 bits of the word carry the single-precision fraction
                got = {k: (v[0], v[1], v[2] & 0xFFFFFFFF) if v else v for k, v in got.items()}
            key = "%s|%s" % (kind, t)
            try:
                x = float(t)
            except ValueError:
                continue
            if kind == "SFlo" and abs(x) > 3.4e38:
                continue
            nt = len(t.replace(".", "").replace("-", "").split("e")[0].strip("0")) > 17 or not (1.0 <= abs(x) < 2.0)
            ev.case(key, nt, sample={"literal": t, "kind": kind, "folded": list(got.get("folded") or [])} if nt and len(ev.samples) < 3 else None, classes=["lit_" + kind])
            ref = got.get("interp")
            bad = [k for k, v in got.items() if v != ref]
            if ref is None or bad:
                what = "%s literal %s: evaluators disagree: %s" % (kind, t, {k: got[k] for k in got})
                return Fail({"kind": "evaluators-differ", "float": kind, "routes": ",".join(sorted(bad)), "what": what}, {"layer": 3, "literals": [t]})
            if kind == "DFlo":
                want = struct.unpack(">Q", struct.pack(">d", x))[0]
                if dbits(*ref) != want:
                    what = "DFlo literal %s: every evaluator gives bits %016x, correctly rounded value is %016x" % (t, dbits(*ref), want)
                    return Fail({"kind": "model-differs", "float": kind, "what": what}, {"layer": 3, "literals": [t]})
    return None


def _worker(args):
    tc, seed, idx, n = args
    ev = Ev()

    def evaluate(lits, ev):
        h = hashlib.sha256(repr(lits).encode()).hexdigest()[:14]
        f = check_batch(tc, lits, ev, h)
        if f is not None and len(f.replay["literals"]) == 1 and check_batch(tc, f.replay["literals"], Ev(), h + "r") is None:
            ev.inconclusive += 1
            return None
        return f
    f = hyp_run("C19", st.lists(literals(), min_size=40, max_size=80), evaluate, derive_seed(seed, "c19", idx), n, ev, shrink_cap=20)
    return result(ev, [f] if f else [])


def run(ctx):
    n = ctx.n(3, 40)
    ctx.pmap(_worker, [(ctx.tc, ctx.seed, i, n) for i in range(16)])


def replay(ctx, case):
    f = check_batch(ctx.tc, case["literals"], Ev(), "replay")
    if f is not None:
        f.replay = case
    return f
