"""C20 containers and boolean normal form: rapidcheck op sequences against textbook models + exhaustive DNF enumeration."""
import os, re, shutil

from .. import harness, findings
from .. import run as R
from ..check import Fail, result, derive_seed
from ..evidence import Ev

ID = "C20"
LEVEL = "exploration"
RULE = ("cases = operation histories (one shrinkable vector of (op, a, b) triples per case, half of the operands drawn from a small range so "
        "keys repeat and collide) run against the repository's table.c / btree.c / priq.c / bitv.c+intset.c / buffer.c / dnf.c and, "
        "in lock step, against std::map / std::multimap / sorted multimap / vector<bool> / byte-exact re-read / truth tables over <= 10 atoms; "
        "plus the exhaustive enumeration of all formulas over n atoms to depth 2 (dnfx). Non-trivial: table = a resize happened and a key was "
        "dropped from a chain of length >= 3; btree = the root was replaced by a split and by a merge; priq = the array grew and >= 3 minima "
        "were extracted; bitv = set algebra and counting ops both occurred on width > 1; buffer = >= 4 kinds of values in >= 6 writes; dnf = "
        ">= 3 atoms and a negation applied to a disjunction. distinct = hash of the history text (counted inside the harness).")
ASSUMPTIONS = ["storage from malloc (-DSTO_USE_MALLOC) under AddressSanitizer",
               "tblNew with a null equality function is only used with the null (pointer identity) hash function, as table.h documents",
               "btreeDelete is only called for keys that are present (store.c, its only caller, guarantees it)",
               "bufWrChars/bufRdChars/bufWrBuffer carry NUL-free text (bufGetChars copies with strncpy; all callers pass strings)",
               "dnfIsTrue/dnfIsFalse are checked for soundness only (the statement does not require completeness); misses are counted"]
EXHAUSTIVE = {"quick": False, "thorough": False}
MODULES = ["table", "btree", "priq", "bitv", "buffer", "dnf"]


def _stats(path):
    d = {}
    try:
        for line in open(path):
            if "=" in line:
                k, v = line.strip().split("=", 1)
                if v.isdigit():
                    d[k] = int(v)
    except FileNotFoundError:
        pass
    return d


def _flags():
    ids = {f["id"] for f in findings.known(ID)}
    fl = []
    if "C20-K4-dnfImplies-incomplete" in ids:
        fl.append("--allow-k4")
    if "C20-K7-dnf-multi-literal-cancel" in ids:
        fl.append("--allow-k7")
    return fl


def _parse_case(out):
    m = re.search(r"C20-CASE-BEGIN\n(.*?)C20-CASE-END", out, re.S)
    if not m:
        return None
    lines = m.group(1).strip().split("\n")
    mod, cfg = lines[0].split()
    ops = [[int(x) for x in l.split()] for l in lines[1:] if l.strip()]
    return {"module": mod, "cfg": int(cfg), "ops": ops}


def _case_text(case):
    return "%s %d\n" % (case["module"], case["cfg"]) + "".join("%d %d %d\n" % tuple(o) for o in case["ops"])


def _classify(msg):
    if msg.startswith("K4 ") or " K4 " in msg[:40]:
        return "K4"
    if "not equivalent to the formula" in msg:
        return "equiv"
    if "AddressSanitizer" in msg:
        return "memory"
    return "model"


def _worker(args):
    binp, mod, idx, seed, ncases, maxlen, wd, flags = args
    ev = Ev()
    d = os.path.join(wd, "%s-%d" % (mod, idx))
    os.makedirs(d, exist_ok=True)
    sf, cf = os.path.join(d, "stats"), os.path.join(d, "case")
    s = derive_seed(seed, "c20", mod, idx)
    env = {"RC_PARAMS": "seed=%d max_success=%d max_size=200 max_discard_ratio=20" % (s, ncases), "VERIF_STATS_FILE": sf,
           "VERIF_CASE_FILE": cf, "VERIF_MAXLEN": str(maxlen), "ASAN_OPTIONS": "detect_leaks=0"}
    r = R.run([binp, mod, "run"] + flags, env=env, cpu=3000, as_limit=0)
    st = _stats(sf)
    out = r.text() + r.err.decode("latin-1")
    ev.evaluations = st.get("cases", 0)
    ev.classes[mod + "_cases"] += st.get("cases", 0)
    ev.classes[mod + "_steps"] += st.get("steps", 0)
    ev.classes[mod + "_nontrivial"] += st.get("nontrivial", 0)
    ev.nontrivial = set("%s-%d-%d" % (mod, idx, i) for i in range(st.get("nontrivial", 0)))
    if mod == "dnf":
        ev.extra["dnf_istrue_incomplete"] = st.get("istrue_incomplete", 0)
        if st.get("k4"):
            ev.excluded_known["C20-K4-dnfImplies-incomplete"] += st["k4"]
        if st.get("k7_tainted"):
            ev.excluded_known["C20-K7-dnf-multi-literal-cancel"] += st["k7_tainted"]
    fails = []
    if "C20-DONE" not in out:
        case = _parse_case(out)
        m = re.search(r"C20-FAIL module=\S+ (.*)", out)
        msg = m.group(1) if m else ""
        if case is None:   # the process died (ASan abort / crash): the case file holds the history being executed
            try:
                txt = open(cf).read()
                lines = txt.strip().split("\n")
                case = {"module": lines[0].split()[0], "cfg": int(lines[0].split()[1]), "ops": [[int(x) for x in l.split()] for l in lines[1:]]}
            except Exception:
                case = {"module": mod, "cfg": 0, "ops": []}
            am = re.search(r"ERROR: AddressSanitizer: (\S+).*?\n\s+#0 \S+ in (\S+).*?\n\s+#1 \S+ in (\S+)", out, re.S)
            msg = ("AddressSanitizer %s in %s < %s" % am.groups()) if am else "harness died rc=%s sig=%s: %s" % (r.rc, r.sig, out[-300:])
        what = "%s: %s" % (mod, msg[:300])
        fails.append(Fail({"module": mod, "class": _classify(msg), "what": what}, case, what))
    elif idx == 0:
        try:
            ev.samples.append({"module": mod, "last_history": open(cf).read()[:500]})
        except Exception:
            pass
    shutil.rmtree(d, ignore_errors=True)
    return result(ev, fails)


def _dnfx_worker(args):
    binp, natoms, depth, wd, flags = args
    ev = Ev()
    sf = os.path.join(wd, "dnfx-%d-%d" % (natoms, depth))
    r = R.run([binp, "dnfx", str(natoms), str(depth)] + flags, env={"VERIF_STATS_FILE": sf, "ASAN_OPTIONS": "detect_leaks=0"}, cpu=3000, as_limit=0)
    out = r.text() + r.err.decode("latin-1")
    m = re.search(r"DNFX-DONE natoms=(\d+) depth=(\d+) formulas=(\d+) pairs=(\d+) k4=(\d+) k7_tainted=(\d+) istrue_incomplete=(\d+)", out)
    fails = []
    if m:
        ev.evaluations = int(m.group(3))
        ev.classes["dnfx_formulas_n%d_d%d" % (natoms, depth)] = int(m.group(3))
        ev.classes["dnfx_pairs_n%d_d%d" % (natoms, depth)] = int(m.group(4))
        st = _stats(sf)
        ev.nontrivial = set("dnfx-%d-%d-%d" % (natoms, depth, i) for i in range(min(st.get("nontrivial_raw", 0), 200000)))
        if int(m.group(5)):
            ev.excluded_known["C20-K4-dnfImplies-incomplete"] += int(m.group(5))
        if int(m.group(6)):
            ev.excluded_known["C20-K7-dnf-multi-literal-cancel"] += int(m.group(6))
        ev.samples.append({"dnfx": "all formulas over %d atoms to depth %d: %s formulas, %s implication/equality pairs" % (natoms, depth, m.group(3), m.group(4))})
    else:
        mm = re.search(r"C20-FAIL module=dnfx (.*)", out)
        msg = mm.group(1) if mm else "harness died rc=%s sig=%s %s" % (r.rc, r.sig, out[-300:])
        what = "dnf exhaustive n=%d depth=%d: %s" % (natoms, depth, msg[:300])
        fails.append(Fail({"module": "dnfx", "class": _classify(msg), "what": what}, {"module": "dnfx", "natoms": natoms, "depth": depth}, what))
    return result(ev, fails)


def run(ctx):
    binp = harness.containers(ctx.tc)
    flags = _flags()
    wd = os.path.join(R.WORK, "c20-%d" % os.getpid())
    shutil.rmtree(wd, ignore_errors=True)
    os.makedirs(wd)
    try:
        ex = [(binp, n, 2, wd, flags) for n in ((2, 3, 4) if ctx.quick else (2, 3, 4, 5, 6, 7, 8))]
        ctx.pmap(_dnfx_worker, ex)
        if ctx.fails:
            return
        jobs = []
        per = ctx.n(1500, 12000)
        for mod in MODULES:
            for i in range(2 if ctx.quick else 2):
                jobs.append((binp, mod, i, ctx.seed, per, 300, wd, flags))
            if not ctx.quick:   # a few very long histories
                jobs.append((binp, mod, 9, ctx.seed, 10, 100000 if mod not in ("dnf",) else 3000, wd, flags))
        ctx.pmap(_worker, jobs)
    finally:
        shutil.rmtree(wd, ignore_errors=True)


def replay(ctx, case):
    binp = harness.containers(ctx.tc)
    flags = _flags()
    if case.get("module") == "dnfx":
        wd = os.path.join(R.WORK, "c20r-%d" % os.getpid())
        os.makedirs(wd, exist_ok=True)
        r = _dnfx_worker((binp, case["natoms"], case["depth"], wd, flags))
        shutil.rmtree(wd, ignore_errors=True)
        return Fail(r["fails"][0]["desc"], case, r["fails"][0]["what"]) if r["fails"] else None
    with R.WorkDir("c20r") as wd:
        p = os.path.join(wd, "case.txt")
        open(p, "w").write(_case_text(case))
        r = R.run([binp, case["module"], "--replay", p] + flags, env={"ASAN_OPTIONS": "detect_leaks=0"}, cpu=600, as_limit=0)
        out = r.text() + r.err.decode("latin-1")
        if "REPLAY-PASS" in out:
            return None
        m = re.search(r"C20-FAIL module=\S+ (.*)", out)
        msg = m.group(1) if m else ""
        if not m:
            am = re.search(r"ERROR: AddressSanitizer: (\S+).*?\n\s+#0 \S+ in (\S+).*?\n\s+#1 \S+ in (\S+)", out, re.S)
            msg = ("AddressSanitizer %s in %s < %s" % am.groups()) if am else "harness died rc=%s sig=%s" % (r.rc, r.sig)
        what = "%s: %s" % (case["module"], msg[:300])
        return Fail({"module": case["module"], "class": _classify(msg), "what": what}, case, what)
