"""C04 Every builtin operation means the same wherever it is evaluated: folder vs interpreter vs C runtime (+ exact model)."""
import hashlib, math, os, re, struct

from .. import aldor
from .. import run as R
from .. import findings
from ..check import Fail, result, derive_seed
from ..evidence import Ev

ID = "C04"
LEVEL = "exploration"
RULE = ("case = (builtin operation of foamBValInfoTable, argument tuple from the per-type boundary sets: both booleans; all 128 ASCII characters; "
        "machine integers 0, +-1, +-2, 2^k-1, 2^k, 2^k+1 for k in {7,8,15,16,30,31,32,62}, max, min+1, small primes, shift counts 0..63; big "
        "integers those plus 2^63+-1, 2^64+-1, 2^200+-1, 10^40; floats +-0.1, 1, 1+-ulp, min normal, subnormals, max, 1e-310...; the full "
        "product per operation in the thorough tier, a seeded sample of <= 160 tuples per operation in the quick tier). Each operation gets one "
        "generated axllib source that imports it 'from Builtin' under its FOAM name, builds every argument from literals through foldable "
        "constructors and prints every result exactly (floats as sign / exponent / fraction words). The source is evaluated three ways: "
        "-Q0 -Ginterp (the interpreter evaluates), -Q0 linked C executable (the runtime evaluates), -Q2 -Qinline-all -Ginterp (the folder "
        "evaluates whatever it folds); all three outputs must be equal line by line and, for Bool/Char/SInt/BInt operations and conversions, "
        "equal to a Python model of the mathematical definition. Non-trivial = a call site of an operation whose BCall disappears from the -Q2 "
        "FOAM (it was folded); distinct = (operation, argument tuple).")
ASSUMPTIONS = ["argument tuples outside the documented domain (signed overflow, zero divisor, min quo -1, shift count outside [0,64), mod-operations "
               "with operands outside [0,n)) are not generated and are counted as domain_excluded",
               "rounding-mode float operations (R*), fused TimesPlus on floats, Byte/HInt/Word/Ptr/Arr operations, Format*/Scan*, Halt and Platform* are "
               "listed under excluded_ops with the reason", "float operations have no model: they are compared between the three evaluators bit for bit"]

W = 64
SMAX, SMIN = 2 ** 63 - 1, -(2 ** 63)


def s_ok(v):
    return SMIN < v <= SMAX      # min itself cannot be written as a literal


SINTS = sorted(set([0, 1, -1, 2, -2, 3, -3, 7, -7, 97, 65537, SMAX, SMIN + 1] + [x for k in (7, 8, 15, 16, 30, 31, 32, 62) for x in (2 ** k - 1, 2 ** k, 2 ** k + 1, -(2 ** k) - 1, -(2 ** k), -(2 ** k) + 1)]))
BINTS = sorted(set(SINTS + [2 ** 63 - 1, 2 ** 63, 2 ** 63 + 1, 2 ** 64 - 1, 2 ** 64, 2 ** 64 + 1, -(2 ** 63), -(2 ** 64) - 1, 2 ** 200 - 1, 2 ** 200 + 1, -(2 ** 200), 10 ** 40, -(10 ** 40) + 7]))
SHIFTS = list(range(0, 64))
CHARS = list(range(0, 128))
DFLOS = ["0.0", "1.0", "-1.0", "0.1", "-0.1", "0.5", "2.0", "3.0", "1.0000000000000002", "0.9999999999999999", "2.2250738585072014e-308", "4.9406564584124654e-324",
         "1.0e-310", "1.7976931348623157e308", "123456789.125", "-7.25", "1.0e100", "6.02214076e23", "9007199254740993.0", "0.3333333333333333"]
SFLOS = ["0.0", "1.0", "-1.0", "0.1", "0.5", "2.0", "3.0", "1.00000012", "1.17549435e-38", "1.0e-45", "3.40282347e38", "16777217.0", "-7.25", "0.33333334"]


def tquo(a, b):
    q = abs(a) // abs(b)
    return -q if (a < 0) != (b < 0) else q


def wrap_ok(v):
    return v if s_ok(v) else None


def m_shiftup(a, n):
    if not 0 <= n < W:
        return None
    return wrap_ok(a * 2 ** n) if a >= 0 else None     # shifting a negative value left is undefined in C


def blen(a):
    return max(1, abs(a).bit_length())


MODELS = {
    "BoolFalse": lambda: False, "BoolTrue": lambda: True, "BoolNot": lambda a: not a, "BoolAnd": lambda a, b: a and b, "BoolOr": lambda a, b: a or b,
    "BoolEQ": lambda a, b: a == b, "BoolNE": lambda a, b: a != b,
    "CharSpace": lambda: 32, "CharNewline": lambda: 10, "CharTab": lambda: 9,
    "CharIsDigit": lambda c: 48 <= c <= 57, "CharIsLetter": lambda c: 65 <= c <= 90 or 97 <= c <= 122,
    "CharEQ": lambda a, b: a == b, "CharNE": lambda a, b: a != b, "CharLT": lambda a, b: a < b, "CharLE": lambda a, b: a <= b,
    "CharLower": lambda c: c + 32 if 65 <= c <= 90 else c, "CharUpper": lambda c: c - 32 if 97 <= c <= 122 else c,
    "CharOrd": lambda c: c, "CharNum": lambda n: n if 0 <= n < 128 else None,
    "SInt0": lambda: 0, "SInt1": lambda: 1, "SIntMax": lambda: SMAX,
    "SIntIsZero": lambda a: a == 0, "SIntIsNeg": lambda a: a < 0, "SIntIsPos": lambda a: a > 0, "SIntIsEven": lambda a: a % 2 == 0, "SIntIsOdd": lambda a: a % 2 == 1,
    "SIntEQ": lambda a, b: a == b, "SIntNE": lambda a, b: a != b, "SIntLT": lambda a, b: a < b, "SIntLE": lambda a, b: a <= b,
    "SIntNegate": lambda a: wrap_ok(-a), "SIntPrev": lambda a: wrap_ok(a - 1), "SIntNext": lambda a: wrap_ok(a + 1),
    "SIntPlus": lambda a, b: wrap_ok(a + b), "SIntMinus": lambda a, b: wrap_ok(a - b), "SIntTimes": lambda a, b: wrap_ok(a * b),
    "SIntTimesPlus": lambda a, b, c: wrap_ok(a * b + c) if s_ok(a * b) else None,
    "SIntQuo": lambda a, b: tquo(a, b) if b != 0 else None, "SIntRem": lambda a, b: a - tquo(a, b) * b if b != 0 else None,
    "SIntMod": lambda a, b: a % b if b > 0 and a >= 0 else None,
    "SIntGcd": lambda a, b: math.gcd(a, b) if a >= 0 and b >= 0 and (a or b) else None,
    "SIntPlusMod": lambda a, b, n: (a + b) % n if n > 0 and 0 <= a < n and 0 <= b < n and n < 2 ** 62 else None,
    # for a < b every evaluator returns a - b (negative); whether the result must be reduced into [0, n) is not fixed by any
    # document (the libraries wrap it themselves), so the model's domain is b <= a
    "SIntMinusMod": lambda a, b, n: (a - b) % n if n > 0 and 0 <= b <= a < n and n < 2 ** 62 else None,
    "SIntTimesMod": lambda a, b, n: (a * b) % n if n > 0 and 0 <= a < n and 0 <= b < n and n < 2 ** 31 else None,
    "SIntLength": lambda a: a.bit_length() if a >= 0 else None,
    "SIntShiftUp": m_shiftup, "SIntShiftDn": lambda a, n: a >> n if 0 <= n < W else None,
    "SIntBit": lambda a, n: bool((a >> n) & 1) if 0 <= n < W and a >= 0 else None,
    "SIntNot": lambda a: ~a if s_ok(~a) else None, "SIntAnd": lambda a, b: a & b, "SIntOr": lambda a, b: a | b, "SIntXOr": lambda a, b: wrap_ok(a ^ b),
    "BInt0": lambda: 0, "BInt1": lambda: 1,
    "BIntIsZero": lambda a: a == 0, "BIntIsNeg": lambda a: a < 0, "BIntIsPos": lambda a: a > 0, "BIntIsEven": lambda a: a % 2 == 0 if a >= 0 else None,
    "BIntIsOdd": lambda a: a % 2 == 1 if a >= 0 else None, "BIntIsSingle": lambda a: abs(a).bit_length() < W,
    "BIntEQ": lambda a, b: a == b, "BIntNE": lambda a, b: a != b, "BIntLT": lambda a, b: a < b, "BIntLE": lambda a, b: a <= b,
    "BIntNegate": lambda a: -a, "BIntPrev": lambda a: a - 1, "BIntNext": lambda a: a + 1,
    "BIntPlus": lambda a, b: a + b, "BIntMinus": lambda a, b: a - b, "BIntTimes": lambda a, b: a * b, "BIntTimesPlus": lambda a, b, c: a * b + c,
    "BIntQuo": lambda a, b: tquo(a, b) if b != 0 else None, "BIntRem": lambda a, b: a - tquo(a, b) * b if b != 0 else None,
    "BIntMod": lambda a, b: a % b if b > 0 and a >= 0 else None,
    "BIntGcd": lambda a, b: math.gcd(a, b),
    "BIntSIPower": lambda a, n: a ** n if 0 <= n <= 40 and abs(a) < 2 ** 70 else None,
    "BIntBIPower": lambda a, n: a ** n if 0 <= n <= 40 and abs(a) < 2 ** 70 else None,
    "BIntPowerMod": lambda a, e, m: pow(a, e, m) if m > 1 and 0 <= a < m and 0 <= e < 2 ** 70 else None,
    "BIntLength": lambda a: abs(a).bit_length() if a != 0 else None,      # (the length of 0 is a convention: 1 in bigint.c)
    "BIntShiftUp": lambda a, n: a * 2 ** n if 0 <= n < W else None,
    "BIntShiftDn": lambda a, n: tquo(a, 2 ** n) if 0 <= n < W else None,
    "BIntBit": lambda a, n: bool((abs(a) >> n) & 1) if 0 <= n < W else None,
    "SIntToBInt": lambda a: a, "BIntToSInt": lambda a: a if s_ok(a) else None,
}
# operations compared between the evaluators only (no exact model here)
NOMODEL = ["SFlo0", "SFlo1", "SFloIsZero", "SFloIsNeg", "SFloIsPos", "SFloEQ", "SFloNE", "SFloLT", "SFloLE", "SFloNegate", "SFloPlus", "SFloMinus", "SFloTimes", "SFloDivide",
           "DFlo0", "DFlo1", "DFloIsZero", "DFloIsNeg", "DFloIsPos", "DFloEQ", "DFloNE", "DFloLT", "DFloLE", "DFloNegate", "DFloPlus", "DFloMinus", "DFloTimes", "DFloDivide",
           "SFloToDFlo", "DFloToSFlo", "SIntToSFlo", "SIntToDFlo", "BIntToSFlo", "BIntToDFlo", "SFloPrev", "SFloNext", "DFloPrev", "DFloNext",
           "SFloMin", "SFloMax", "SFloEpsilon", "DFloMin", "DFloMax", "DFloEpsilon", "CharMin", "CharMax", "SIntMin"]
EXCLUDED = {"R-operations (SFloRPlus ... DFloRDivide)": "take a rounding-mode argument whose encoding is platform specific",
            "SFloTimesPlus / DFloTimesPlus": "may be fused by the C compiler; the statement does not fix which",
            "Byte*, HInt*, Word*, Ptr*, Arr*, Format*, Scan*, *Dissemble / *Assemble / *Divide (multi-valued)": "argument or result types the generated source cannot print exactly; Dissemble itself is the print-out device",
            "BIntShiftRem, SIntTimesModInv, SIntHashCombine": "not exported by any library; domain undocumented",
            "Halt, PlatformRTE, PlatformOS": "not pure"}
TMAP = {"Bool": "BBool", "Char": "BChar", "SInt": "BSInt", "BInt": "BBInt", "SFlo": "BSFlo", "DFlo": "BDFlo"}


def table(tc):
    t = open(os.path.join(tc.srcdir, "foam.c")).read()
    seg = t[t.index("foamBValInfoTable"):]
    ents = re.findall(r'\{FOAM_BVal_(\w+),\s*\d+,"(\w+)",\s*\d+,(\d+),\{([^}]*)\},\s*(FOAM_\w+),\s*(\d+)', seg)
    out = {}
    for n, name, argc, args, ret, nret in ents:
        a = [x.strip().replace("FOAM_", "") for x in args.split(",") if x.strip()][:int(argc)]
        out[name] = (a, ret.replace("FOAM_", ""), int(nret))
    return out


def arg_values(t, quickrnd=None):
    return {"Bool": [False, True], "Char": CHARS, "SInt": SINTS, "BInt": BINTS, "DFlo": DFLOS, "SFlo": SFLOS}[t]


def lit(t, v):
    if t == "Bool":
        return "((%s@Boolean)::BBool)" % ("true" if v else "false")
    if t == "Char":
        return "CharNum(s(%d))" % v
    if t == "SInt":
        return "s(%d)" % v if v >= 0 else "s(-%d)" % -v
    if t == "BInt":
        return "((%d@Integer)::BBInt)" % v if v >= 0 else "((-%d@Integer)::BBInt)" % -v
    if t == "DFlo":
        return "((%s@DoubleFloat)::BDFlo)" % v if not v.startswith("-") else "((-%s@DoubleFloat)::BDFlo)" % v[1:]
    if t == "SFlo":
        return "((%s@SingleFloat)::BSFlo)" % v if not v.startswith("-") else "((-%s@SingleFloat)::BSFlo)" % v[1:]
    raise ValueError(t)


PRN = {"Bool": "pb", "Char": "pc", "SInt": "ps", "BInt": "pz", "DFlo": "pd", "SFlo": "pf"}
HEADER = '''#include "axllib"
import from Machine;
import from SingleInteger, Integer, Boolean, Character, String, DoubleFloat, SingleFloat;
import {
	CharNum: BSInt -> BChar;
	CharOrd: BChar -> BSInt;
	DFloDissemble: BDFlo -> (BBool, BSInt, Word$Machine, Word$Machine);
	SFloDissemble: BSFlo -> (BBool, BSInt, Word$Machine);
%s
} from Builtin;
s(n: SingleInteger): BSInt == n::BSInt;
pb(i: SingleInteger, b: BBool): () == { print << "@ " << i << " " << (b::Boolean) << newline }
ps(i: SingleInteger, x: BSInt): () == { print << "@ " << i << " " << (x::SingleInteger) << newline }
pc(i: SingleInteger, x: BChar): () == { print << "@ " << i << " " << (CharOrd(x)::SingleInteger) << newline }
pz(i: SingleInteger, x: BBInt): () == { print << "@ " << i << " " << (x::Integer) << newline }
pd(i: SingleInteger, x: BDFlo): () == { (sg, ex, w0, w1) := DFloDissemble(x); print << "@ " << i << " " << (sg::Boolean) << " " << (ex::SingleInteger) << " " << ((w0 pretend BSInt)::SingleInteger) << newline }
pf(i: SingleInteger, x: BSFlo): () == { (sg, ex, w0) := SFloDissemble(x); print << "@ " << i << " " << (sg::Boolean) << " " << (ex::SingleInteger) << " " << ((w0 pretend BSInt)::SingleInteger) << newline }
'''


def source(op, sig, tuples):
    args, ret, _ = sig
    decl = "\t%s: %s -> %s;" % (op, "(" + ", ".join(TMAP[a] for a in args) + ")" if args else "()", TMAP[ret])
    if op in ("CharNum", "CharOrd"):
        decl = ""
    lines = [HEADER % decl]
    # one small function per tuple: the inliner's size budget is per function, and only inlined literal conversions leave the
    # folder constants to work on (one long file-level sequence stops being inlined, hence folded, after a few dozen calls)
    for i, tup in enumerate(tuples):
        call = "%s(%s)" % (op, ", ".join(lit(t, v) for t, v in zip(args, tup)))
        lines.append("t%d(): () == %s(%d, %s);" % (i, PRN[ret], i, call))
    for i in range(len(tuples)):
        lines.append("t%d();" % i)
    return "\n".join(lines) + "\n"


def norm_line(ret, l):
    p = l.split()
    if ret == "SFlo" and len(p) == 3:
        p[2] = str(int(p[2]) & 0xFFFFFFFF)      # only the low word carries the single-precision fraction
    return " ".join(p)


def fmt_model(ret, v):
    if ret == "Bool":
        return "true" if v else "false"
    return str(v)


def run_op(args):
    tc, op, sig, tuples, wd0 = args
    ev = Ev()
    fails = []
    argt, ret, _ = sig
    wd = os.path.join(wd0, op)
    os.makedirs(wd, exist_ok=True)
    src = source(op, sig, tuples)
    R.write(os.path.join(wd, "b.as"), src)
    outs = {}
    # interpreter evaluates
    ri = aldor.interp(tc, wd, "b.as", ["-Q0", "-Ffm=q0.fm"], lib="axllib", cpu=300)
    outs["interp"] = ri
    # folder evaluates
    rf = aldor.interp(tc, wd, "b.as", ["-Q2", "-Qinline-all", "-Ffm=q2.fm"], lib="axllib", cpu=300)
    outs["folded"] = rf
    # C runtime evaluates
    fr, exe = aldor.build_exe(tc, wd, "b.as", ["-Q0"], lib="axllib")
    rc = aldor.run_exe(exe, wd) if fr is None else fr
    outs["c"] = rc
    lines = {}
    for k, r in outs.items():
        if aldor.has_error(r.text()) and k != "c":
            fails.append(Fail({"kind": "rejected", "op": op, "route": k, "what": "%s: generated source rejected on route %s: %s" % (op, k, r.text()[:300].replace("\n", " | "))},
                              {"op": op, "tuples": [list(t) for t in tuples[:20]], "src": src[:4000]}))
            return result(ev, fails)
        lines[k] = {}
        for l in aldor.marker_lines(r):
            p = l.split()
            if len(p) >= 3 and p[1].isdigit():
                lines[k][int(p[1])] = norm_line(ret, " ".join(p[2:]))
    try:
        left = len(re.findall(r"\(BCall\s+%s\b" % re.escape(op), open(os.path.join(wd, "q2.fm"), errors="replace").read()))
        folded = left < len(tuples) or (not argt and left == 0)     # some application was evaluated at compile time
    except OSError:
        left, folded = len(tuples), False
    ev.extra.setdefault("unfolded_calls", {})[op] = "%d/%d" % (left, len(tuples))
    ev.classes["op_folded" if folded else "op_not_folded"] += 1
    ev.extra.setdefault("fold", {})[op] = folded
    for i, tup in enumerate(tuples):
        key = "%s|%s" % (op, "|".join(str(x) for x in tup))
        vi, vf, vc = lines["interp"].get(i), lines["folded"].get(i), lines["c"].get(i)
        ev.case(key, folded, sample={"op": op, "args": list(tup), "value": vi} if folded and i == 0 else None, classes=["ret_" + ret])
        what = None
        if vi is None or vf is None or vc is None:
            what = "%s%s: a result line is missing (interp %r, folded %r, C %r) - an evaluator died" % (op, tuple(tup), vi, vf, vc)
            kind = "missing"
        elif not (vi == vf == vc):
            what = "%s%s: interpreter %s, folded %s, C runtime %s" % (op, tuple(tup), vi, vf, vc)
            kind = "evaluators-differ"
        elif op in MODELS:
            want = fmt_model(ret, MODELS[op](*tup))
            if want != vi:
                what = "%s%s: all evaluators say %s, the mathematical definition says %s" % (op, tuple(tup), vi, want)
                kind = "model-differs"
        if what:
            desc = {"kind": kind, "op": op, "klass": klass_of(kind, op, ret, argt, tup, vi, vf, vc), "what": what}
            kf = findings.match(ID, desc)
            if kf is not None and not _REPLAYING:      # a listed finding: count it and go on with the other tuples
                ev.excluded_known[kf["id"]] += 1
                continue
            fails.append(Fail(desc, {"op": op, "tuples": [list(tup)]}))
            break
    return result(ev, fails)


_REPLAYING = False


def klass_of(kind, op, ret, argt, tup, vi, vf, vc):
    """the one listed class (C04-K40): under -Qffold the peephole pass applies the integer identities x*0 = 0, 0/x = 0, x+0 = x, 0-x = -x
    to floats, so a float operation with a literal zero operand whose true result is a zero gets the other sign of zero"""
    if kind != "evaluators-differ" or ret not in ("SFlo", "DFlo") or vi != vc or vf is None or vi is None:
        return "other"
    if not any(op.endswith(x) for x in ("FloPlus", "FloMinus", "FloTimes", "FloDivide")):
        return "other"
    try:
        zero_arg = any(t in ("SFlo", "DFlo") and float(v) == 0.0 for t, v in zip(argt, tup))
    except ValueError:
        return "other"
    a, b = vi.split(), vf.split()
    if zero_arg and len(a) == len(b) == 3 and a[1:] == b[1:] and a[0] != b[0] and int(a[2]) == 0 and int(a[1]) in (-127, -1023):
        return "ffold-signed-zero"
    return "other"


# ---- big-integer builtins reached through the library's operators: `(a@Integer) <= (b@Integer)` is inlined to BIntLE on two constants,
# which the folder then evaluates (the Builtin-import spelling above leaves big-integer operands in locals it does not fold)
LIBOPS = {"BIntLE": ("<=", "Bool"), "BIntLT": ("<", "Bool"), "BIntEQ": ("=", "Bool"), "BIntNE": ("~=", "Bool"),
          "BIntPlus": ("+", "BInt"), "BIntMinus": ("-", "BInt"), "BIntTimes": ("*", "BInt"),
          "BIntQuo": ("quo", "BInt"), "BIntRem": ("rem", "BInt"), "BIntGcd": ("gcd", "BInt")}
LIBHDR = '''#include "axllib"
import from SingleInteger, Integer, Boolean, String;
pz(i: SingleInteger, x: Integer): () == { print << "@ " << i << " " << x << newline }
pb(i: SingleInteger, b: Boolean): () == { print << "@ " << i << " " << b << newline }
'''


def zl(v):
    return "(%d@Integer)" % v if v >= 0 else "(-(%d@Integer))" % -v


def libop_source(op, tuples):
    sym, ret = LIBOPS[op]
    lines = [LIBHDR]
    for i, (a, b) in enumerate(tuples):
        e = "gcd(%s, %s)" % (zl(a), zl(b)) if sym == "gcd" else "(%s %s %s)" % (zl(a), sym, zl(b))
        lines.append("t%d(): () == %s(%d, %s);" % (i, "pb" if ret == "Bool" else "pz", i, e))
    lines += ["t%d();" % i for i in range(len(tuples))]
    return "\n".join(lines) + "\n"


def run_libop(args):
    tc, op, tuples, wd0 = args
    ev = Ev()
    fails = []
    wd = os.path.join(wd0, "lib-" + op)
    os.makedirs(wd, exist_ok=True)
    R.write(os.path.join(wd, "b.as"), libop_source(op, tuples))
    r0 = aldor.interp(tc, wd, "b.as", ["-Q0"], lib="axllib", cpu=300)
    r2 = aldor.interp(tc, wd, "b.as", ["-Q2", "-Qinline-all", "-Ffm=q2.fm"], lib="axllib", cpu=300)
    if aldor.has_error(r0.text()) or aldor.has_error(r2.text()):
        fails.append(Fail({"kind": "rejected", "op": op, "klass": "other", "what": "%s through the library operator: source rejected: %s" % (op, (r0.text() + r2.text())[:300].replace("\n", " | "))},
                          {"libop": op, "tuples": [list(t) for t in tuples[:20]]}))
        return result(ev, fails)
    def lines_of(r):
        out = {}
        for l in aldor.marker_lines(r):
            p_ = l.split()
            if len(p_) >= 3 and p_[1].isdigit():
                out[int(p_[1])] = " ".join(p_[2:])
        return out
    l0, l2 = lines_of(r0), lines_of(r2)
    try:
        left = len(re.findall(r"\(BCall\s+%s\b" % op, open(os.path.join(wd, "q2.fm"), errors="replace").read()))
    except OSError:
        left = len(tuples)
    ev.extra.setdefault("unfolded_calls", {})[op + " (library operator)"] = "%d/%d" % (left, len(tuples))
    model = MODELS.get(op)
    for i, (a, b) in enumerate(tuples):
        v0, v2 = l0.get(i), l2.get(i)
        ev.case("lib|%s|%d|%d" % (op, a, b), left < len(tuples), classes=["libop_" + op])
        want = None
        if model is not None:
            m = model(a, b)
            want = ("T" if m else "F") if isinstance(m, bool) else str(m)
        what = None
        if v0 is None or v2 is None:
            what = "%s(%d, %d) through the library operator: a result line is missing (-Q0 %r, folded %r)" % (op, a, b, v0, v2)
        elif v0 != v2:
            what = "%s(%d, %d) through the library operator: interpreter at -Q0 %s, folded at -Q2 %s" % (op, a, b, v0, v2)
        elif want is not None and v0 not in (want, want.replace("T", "true").replace("F", "false")):
            what = "%s(%d, %d) through the library operator: both say %s, the mathematical definition says %s" % (op, a, b, v0, want)
        if what:
            fails.append(Fail({"kind": "evaluators-differ", "op": op, "klass": "other", "what": what}, {"libop": op, "tuples": [[a, b]]}))
            break
    return result(ev, fails)


def tuples_for(op, sig, quick, seed):
    import itertools, random
    argt = sig[0]
    sets = [arg_values(t) for t in argt]
    if op in ("SIntShiftUp", "SIntShiftDn", "SIntBit", "BIntShiftUp", "BIntShiftDn", "BIntBit") and len(sets) == 2:
        sets[1] = SHIFTS
    if op in ("BIntSIPower",):
        sets[1] = [0, 1, 2, 3, 5, 17, 40]
    if op in ("BIntBIPower",):
        sets[1] = [0, 1, 2, 3, 5, 17, 40]
    if op in ("CharNum",):
        sets[0] = CHARS
    allt = itertools.product(*sets)
    model = MODELS.get(op)
    out, skipped = [], 0
    total = 1
    for s_ in sets:
        total *= len(s_)
    rnd = random.Random("%s|%d" % (op, seed))
    cap = 160 if quick else 3000
    if total > cap:
        # seeded sample of the product (the whole product in the thorough tier when it is not larger than the cap)
        picks = set()
        tries = 0
        while len(picks) < cap and tries < cap * 20:
            picks.add(tuple(rnd.choice(s_) for s_ in sets))
            tries += 1
        allt = sorted(picks, key=repr)
    for tup in allt:
        if model is not None:
            try:
                if model(*tup) is None:
                    skipped += 1
                    continue
            except (ZeroDivisionError, ValueError, OverflowError):
                skipped += 1
                continue
        else:
            # float domains: no division by zero
            if op.endswith("Divide") and float(tup[1]) == 0.0:
                skipped += 1
                continue
            if op in ("SIntToSFlo", "SIntToDFlo", "BIntToSFlo", "BIntToDFlo") and abs(tup[0]) > 2 ** 200:
                pass
        out.append(tup)
    return out, skipped


def run(ctx):
    import shutil
    tab = table(ctx.tc)
    ops = [o for o in list(MODELS) + NOMODEL if o in tab and tab[o][2] == 1 and tab[o][1] in TMAP and all(a in TMAP for a in tab[o][0])]
    missing = [o for o in list(MODELS) + NOMODEL if o not in tab]
    unlisted = sorted(o for o in tab if o not in MODELS and o not in NOMODEL)
    ctx.ev.extra["ops_checked"] = len(ops)
    ctx.ev.extra["ops_in_table"] = len(tab)
    ctx.ev.extra["excluded_ops"] = dict(EXCLUDED, not_checked=unlisted)
    wd = os.path.join(R.WORK, "c04-%d" % os.getpid())
    shutil.rmtree(wd, ignore_errors=True)
    os.makedirs(wd)
    try:
        jobs = []
        dom = 0
        for op in ops:
            tups, skipped = tuples_for(op, tab[op], ctx.quick, ctx.seed)
            dom += skipped
            for i in range(0, max(len(tups), 1), 400):
                chunk = tups[i:i + 400]
                if chunk or not tab[op][0]:
                    jobs.append((ctx.tc, op, tab[op], chunk if tab[op][0] else [()], os.path.join(wd, "j%d" % len(jobs))))
        ctx.ev.extra["domain_excluded"] = dom
        ctx.pmap(run_op, jobs)
        if ctx.fails:
            return
        ljobs = []
        for op in LIBOPS:
            tups, _ = tuples_for(op, (["BInt", "BInt"], LIBOPS[op][1], 1), ctx.quick, ctx.seed)
            tups = [t for t in tups if not (op in ("BIntQuo", "BIntRem") and t[1] == 0)]
            eq = [(t[0], t[0]) for t in tups[:40]]          # equal operands: the boundary of every comparison
            ljobs.append((ctx.tc, op, sorted(set(tups + eq)), wd))
        ctx.pmap(run_libop, ljobs)
        fold = ctx.ev.extra.get("fold", {})
    finally:
        shutil.rmtree(wd, ignore_errors=True)


def replay(ctx, case):
    import shutil
    tab = table(ctx.tc)
    if "libop" in case:
        wdl = os.path.join(R.WORK, "c04rl-%d" % os.getpid())
        shutil.rmtree(wdl, ignore_errors=True)
        os.makedirs(wdl)
        try:
            r = run_libop((ctx.tc, case["libop"], [tuple(t) for t in case["tuples"]], wdl))
            if r["fails"]:
                f = r["fails"][0]
                return Fail(f["desc"], case, f["what"])
            return None
        finally:
            shutil.rmtree(wdl, ignore_errors=True)
    op = case["op"]
    wd = os.path.join(R.WORK, "c04r-%d" % os.getpid())
    shutil.rmtree(wd, ignore_errors=True)
    os.makedirs(wd)
    global _REPLAYING
    try:
        _REPLAYING = True       # a listed finding is returned (and reported as KNOWN-FINDING by the driver), not skipped
        r = run_op((ctx.tc, op, tab[op], [tuple(t) for t in case["tuples"]], wd))
        if r["fails"]:
            f = r["fails"][0]
            return Fail(f["desc"], case, f["what"])
        return None
    finally:
        _REPLAYING = False
        shutil.rmtree(wd, ignore_errors=True)
