"""C10 storage manager: rapidcheck histories (fork-isolated) against a model of live blocks, plus exhaustive short histories."""
import os, re, shutil

from .. import harness
from .. import run as R
from ..check import Fail, result, derive_seed
from ..evidence import Ev

ID = "C10"
LEVEL = "exploration"
RULE = ("case = (mode, history) with mode in {explicit-collection, automatic-collection} and history a vector of alloc/free/resize/recode/write/"
        "link/root/unroot/gc/check-all requests, sizes drawn from a boundary set covering every fixed class edge, the fixed/mixed boundary (256/257), "
        "page and 16-page-group edges and 1 MB; one history in five is a fragmentation history (33-120 large blocks of pairwise distinct multi-page "
        "piece sizes separated by live spacers, freed in ascending / descending / shuffled order so that that many distinct free sizes exist at once, "
        "re-requested exactly in one of the three orders, then everything freed); each history runs in a fork()ed child on the real allocator (both the compiler flavour and "
        "-DFOAM_RTS) with a model {id -> address(hidden), size, code, byte pattern, links, rooted}; after every step: alignment, stoSize >= request, "
        "disjointness from all live blocks, stoCode, byte patterns, resize prefix, survival of everything reachable from static roots after stoGc, "
        "and stoAudit(). Non-trivial = a block was freed and a later allocation had the same true size class AND a collection ran with both "
        "reachable and unreachable blocks live (exhaustive part: first condition only); distinct = hash of the history text.")
ASSUMPTIONS = ["survival across collection is asserted only for blocks reachable from static data of the test binary (which the marker scans) "
               "directly or through pointers stored in reachable blocks whose code is registered as containing pointers",
               "in automatic mode a collection may start inside any allocation, so only reachable blocks stay in the model",
               "model addresses are stored complemented so that the conservative marker cannot see them"]
EXHAUSTIVE = {"quick": False, "thorough": False}


def _stats(path):
    d = {}
    try:
        for line in open(path):
            if "=" in line:
                k, v = line.strip().split("=", 1)
                if v.isdigit():
                    d[k] = int(v)
    except FileNotFoundError:
        pass
    return d


def _parse_case(txt):
    lines = [l for l in txt.strip().split("\n") if l.strip()]
    cfg = 0
    ops = []
    for l in lines:
        if l.startswith("cfg"):
            cfg = int(l.split()[1])
        else:
            ops.append([int(x) for x in l.split()])
    return {"cfg": cfg, "ops": ops}


def _case_text(case):
    return "cfg %d\n" % case["cfg"] + "".join("%d %d %d\n" % tuple(o) for o in case["ops"])


def _fail_from(out, cf, flavour, r):
    m = re.search(r"C10-CASE-BEGIN\n(.*?)C10-CASE-END", out, re.S)
    if m:
        case = _parse_case(m.group(1))
    else:
        try:
            case = _parse_case(open(cf).read())
        except Exception:
            case = {"cfg": 0, "ops": []}
    mm = re.search(r"C10-FAIL (.*)", out)
    msg = mm.group(1) if mm else "harness died rc=%s sig=%s %s" % (r.rc, r.sig, out[-300:])
    case["flavour"] = flavour
    kind = "crash" if ("child killed" in msg or "child exited" in msg) else "model"
    what = "store (%s): %s" % (flavour, msg[:300])
    return Fail({"flavour": flavour, "kind": kind, "what": what}, case, what)


def _worker(args):
    tc_bin, flavour, idx, seed, ncases, maxlen, wd = args
    ev = Ev()
    d = os.path.join(wd, "%s-%d" % (flavour, idx))
    os.makedirs(d, exist_ok=True)
    sf, cf = os.path.join(d, "stats"), os.path.join(d, "case")
    s = derive_seed(seed, "c10", flavour, idx)
    env = {"RC_PARAMS": "seed=%d max_success=%d max_size=200" % (s, ncases), "VERIF_STATS_FILE": sf, "VERIF_CASE_FILE": cf,
           "VERIF_MAXLEN": str(maxlen), "VERIF_SHRINK_CAP": "300"}
    r = R.run([tc_bin, "run"], env=env, cpu=6000, as_limit=0)
    st = _stats(sf)
    out = r.text() + r.err.decode("latin-1")
    ev.evaluations = st.get("cases", 0)
    ev.classes["histories_" + flavour] += st.get("cases", 0)
    ev.classes["steps_" + flavour] += st.get("steps", 0)
    ev.classes["fragmentation_histories_" + flavour] += st.get("frag_histories", 0)
    ev.nontrivial = set("%s-%d-%d" % (flavour, idx, i) for i in range(st.get("nontrivial", 0)))
    fails = []
    if "C10-DONE" not in out:
        fails.append(_fail_from(out, cf, flavour, r))
    elif idx == 0:
        try:
            ev.samples.append({"flavour": flavour, "last_history": open(cf).read()[:600]})
        except Exception:
            pass
    shutil.rmtree(d, ignore_errors=True)
    return result(ev, fails)


def _exhaust_worker(args):
    tc_bin, flavour, length, shard, nsh, wd = args
    ev = Ev()
    sf = os.path.join(wd, "ex-%s-%d-%d" % (flavour, length, shard))
    r = R.run([tc_bin, "exhaust", str(length), str(shard), str(nsh)], env={"VERIF_STATS_FILE": sf}, cpu=6000, as_limit=0)
    out = r.text() + r.err.decode("latin-1")
    st = _stats(sf)
    ev.evaluations = st.get("cases", 0)
    ev.classes["exhaustive_len%d_%s" % (length, flavour)] += st.get("cases", 0)
    ev.nontrivial = set("ex-%s-%d-%d-%d" % (flavour, length, shard, i) for i in range(st.get("nontrivial", 0)))
    fails = []
    if "C10-DONE" not in out:
        fails.append(_fail_from(out, "/nonexistent", flavour, r))
    elif shard == 0:
        ev.samples.append({"exhaustive": "all histories of length %d over {A8,A24,A256,A257,A5000,F-oldest,F-newest,R-grow,R-shrink,G} x both modes, flavour %s" % (length, flavour)})
    return result(ev, fails)


def run(ctx):
    bins = {f: harness.store_model(ctx.tc, f) for f in ("plain", "rts")}
    wd = os.path.join(R.WORK, "c10-%d" % os.getpid())
    shutil.rmtree(wd, ignore_errors=True)
    os.makedirs(wd)
    try:
        lens = (4, 5) if ctx.quick else (4, 5, 6)
        jobs = [(bins[f], f, L, sh, 16 if L > 4 else 4, wd) for f in ("plain", "rts") for L in lens for sh in range(16 if L > 4 else 4)]
        ctx.pmap(_exhaust_worker, jobs)
        if ctx.fails:
            return
        per = ctx.n(700, 5000)
        jobs = [(bins[f], f, i, ctx.seed, per, 200, wd) for f in ("plain", "rts") for i in range(8)]
        if not ctx.quick:
            jobs += [(bins[f], f, 20 + i, ctx.seed, 3, 100000, wd) for f in ("plain", "rts") for i in range(4)]
        ctx.pmap(_worker, jobs)
    finally:
        shutil.rmtree(wd, ignore_errors=True)


def replay(ctx, case):
    flavour = case.get("flavour", "plain")
    binp = harness.store_model(ctx.tc, flavour)
    with R.WorkDir("c10r") as wd:
        p = os.path.join(wd, "case.txt")
        open(p, "w").write(_case_text(case))
        r = R.run([binp, "--replay", p], cpu=600, as_limit=0)
        out = r.text() + r.err.decode("latin-1")
        if "REPLAY-PASS" in out:
            return None
        f = _fail_from(out, p, flavour, r)
        f.replay = case
        return f
