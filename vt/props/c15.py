"""C15 Diagnostics point at the right file, line and column."""
import hashlib, os, re

from .. import aldor, findings
from .. import run as R
from ..check import Fail, result, derive_seed, hyp_run
from ..evidence import Ev
from ..gen import prog as P
from hypothesis import strategies as st

ID = "C15"
LEVEL = "exploration"
KS = [1, 2, 10, 255, 256, 65535, 65536, 70000]
RULE = ("case = (generated program with one planted fault from the ill-typed catalogue at a drawn site; insertion line p; k in "
        "{1,2,10,255,256,65535,65536,70000} lines without code (blank or comment) inserted before line p; placement in {same file, the faulty "
        "function moved into an #include'd file, a '#line n \"f\"' directive before it (f new, f already in effect through an earlier #line, f the file itself, or no f)}; the offending line padded so that the offending token "
        "starts at column c in {as is, 100, 1000, 16000}). Oracle: (a) shift law - every reported line number at or after p grows by exactly k, "
        "every other line number, every column, every message text and the number of messages are unchanged; (b) absolute - for the undefined-name "
        "and wrong-argument faults the reported line and column are those of the planted token; (c) the message names the included / renamed "
        "file and the local / renumbered line. Non-trivial = k > 0 with a diagnostic at or below p, or placement differs from 'same file', or the "
        "token was moved to a column >= 100; distinct = (program, fault, site, p, k, placement, column).")
ASSUMPTIONS = ["columns beyond 16383 are excluded while known finding C15-K3 is listed (14-bit column field)"]
MSG = re.compile(r"^\[L(\d+) C(\d+)\] #\d+ \((Error|Warning|Fatal Error|Remark)\) (.*)$")
HDR = re.compile(r'^"([^"]*)", line (\d+):')
K3_KNOWN = any(f["id"] == "C15-K3-column-14-bits" for f in findings.known(ID))


def diagnostics(text):
    """list of (file, line, col, severity, message text) in order of appearance"""
    out = []
    cur = None
    for l in text.split("\n"):
        h = HDR.match(l)
        if h:
            cur = h.group(1)
            continue
        m = MSG.match(l)
        if m:
            out.append((cur, int(m.group(1)), int(m.group(2)), m.group(3), m.group(4)))
    return out


def compile_text(tc, files, tag):
    with R.WorkDir("c15-" + tag) as wd:
        for n, t in files.items():
            R.write(os.path.join(wd, n), t)
        r = aldor.compile_(tc, wd, ["p.as"], ["-Fao"], cpu=120)
    return r


def space_text(lines):
    return [("    " * i) + t for i, t in lines]


def check(tc, pr, kind, site, p_frac, k, placement, col, ev, h):
    r = P.Renderer(pr)
    tops, stmt, tok = P.mutant_parts(kind)
    r.extra_top = tops
    raw = ("raw", tuple(stmt))
    if site[0] == "main":
        main = list(pr[2]); main.insert(site[1], raw)
        r.prog = (pr[0], pr[1], tuple(main), pr[3], pr[4])
    else:
        f = r.d["funcs"][site[1]]; b = list(f["body"]); b.insert(site[2], raw); f["body"] = tuple(b)
    src = space_text(r.top())
    # line of the planted token
    tl = [i for i, l in enumerate(src) if tok in l and not l.lstrip().startswith(("TokQ:", "hlpQ(", "ambQ("))]
    if not tl:
        return None, False
    ti = tl[-1] if kind in ("M1", "M2a", "M2b", "M3") else tl[0]
    if col:
        # move the offending statement to the right: blanks are layout only
        line = src[ti]
        src[ti] = " " * max(0, col - (len(line) - len(line.lstrip())) - line.lstrip().find(tok) - 1) + line
    tcol = src[ti].find(tok) + 1
    base_files = {"p.as": "\n".join(src) + "\n"}
    case = {"kind": kind, "k": k, "placement": placement, "col": col}
    r0 = compile_text(tc, base_files, h + "0")
    d0 = diagnostics(r0.text())
    if not d0:
        ev.classes["no_diagnostic_baseline"] += 1
        return None, False
    errs0 = [d for d in d0 if d[3] in ("Error", "Fatal Error")]
    fails = None
    # (b) absolute position for the faults whose blamed token is forced
    if kind in ("M3", "M1") and errs0:
        hit = [d for d in errs0 if d[1] == ti + 1 and d[2] == tcol]
        if not hit:
            return Fail({"kind": "absolute-position", "fault": kind, "column": "wide" if tcol >= 16384 else "narrow", "what": "fault %s planted at line %d column %d is reported at %s" % (kind, ti + 1, tcol, [(d[1], d[2]) for d in errs0][:3])},
                        dict(case, files=base_files, expect_line=ti + 1, expect_col=tcol)), True
    # (a) shift law
    p = min(len(src) - 1, max(3, int(p_frac * len(src))))
    filler = ["", "-- filler line", "   ", "-- { ( unbalanced in a comment"]
    ins = [filler[i % 4] for i in range(k)]
    shifted = src[:p] + ins + src[p:]
    r1 = compile_text(tc, {"p.as": "\n".join(shifted) + "\n"}, h + "1")
    d1 = diagnostics(r1.text())
    nt = (k > 0 and any(d[1] > p for d in d0)) or col >= 100
    want = [(d[0], d[1] + k if d[1] > p else d[1], d[2], d[3], d[4]) for d in d0]
    if d1 != want or r1.rc != r0.rc:
        bad = [(a, b) for a, b in zip(want, d1) if a != b][:2]
        what = "inserting %d code-free lines before line %d: expected every diagnostic at or after it to move by exactly %d lines; first differing (expected, got): %s; counts %d vs %d" % (k, p + 1, k, bad, len(want), len(d1))
        return Fail({"kind": "shift-law", "k": str(k), "fault": kind, "column": "wide" if tcol >= 16384 else "narrow", "what": what}, dict(case, files={"p.as": "\n".join(shifted) + "\n"}, base=base_files, p=p)), nt
    # (c) include / #line placement of the faulty line
    if placement == "include":
        inc = src[ti]
        main_src = src[:ti] + ['#include "inc%s.as"' % h[:4]] + src[ti + 1:]
        files = {"p.as": "\n".join(main_src) + "\n", "inc%s.as" % h[:4]: "-- included\n\n" + inc + "\n"}
        r2 = compile_text(tc, files, h + "2")
        d2 = [d for d in diagnostics(r2.text()) if d[3] in ("Error", "Fatal Error")]
        ok = [d for d in d2 if d[0] and d[0].endswith("inc%s.as" % h[:4]) and d[1] == 3]
        if errs0 and any(d[1] == ti + 1 for d in errs0) and not ok:
            return Fail({"kind": "include-position", "fault": kind, "what": "offending line moved into an included file (its line 3): reported as %s" % [(d[0], d[1], d[2]) for d in d2][:3]},
                        dict(case, files=files, expect_file="inc%s.as" % h[:4], expect_fline=3)), True
        nt = True
    elif placement in ("line", "line2", "lineself", "linebare"):
        newno = [7, 1000, 65000, 70001][k % 4]
        # line: first switch to another name; line2: second directive naming the name already in effect (what a literate-programming
        # tool emits); lineself: the directive names the file it is in; linebare: no name, the current file keeps its name
        fname = {"line": "renamed.as", "line2": "renamed.as", "lineself": "p.as", "linebare": "p.as"}[placement]
        directive = '#line %d' % newno if placement == "linebare" else '#line %d "%s"' % (newno, fname)
        lsrc = src[:ti] + [directive] + src[ti:]
        if placement == "line2":
            if ti <= 4:
                return None, nt
            lsrc = lsrc[:3] + ['#line 31 "renamed.as"'] + lsrc[3:]
        # the named file has at least `newno` lines (blank padding), so that the message can show the line it names
        pad = "\n" * (newno + 3) if fname == "p.as" else ""
        files = {"p.as": "\n".join(lsrc) + "\n" + pad, "renamed.as": "\n" * (newno + 3)}
        r3 = compile_text(tc, files, h + "3")
        d3 = [d for d in diagnostics(r3.text()) if d[3] in ("Error", "Fatal Error")]
        ok = [d for d in d3 if d[0] and d[0].endswith(fname) and d[1] == newno]
        if errs0 and any(d[1] == ti + 1 for d in errs0) and not ok:
            return Fail({"kind": "line-directive-position", "fault": kind, "variant": placement, "what": "%s before the offending line%s: reported as %s" % (
                directive, " (after an earlier #line 31 \"renamed.as\")" if placement == "line2" else "", [(d[0], d[1], d[2]) for d in d3][:3])},
                        dict(case, files=files, expect_file=fname, expect_fline=newno)), True
        nt = True
    return None, nt


def _worker(args):
    tc, seed, idx, n = args
    ev = Ev()
    cols = [0, 0, 100, 1000, 16000] + ([] if K3_KNOWN else [16384, 20000])
    strat = st.tuples(P.programs(P.Profile(size=8, abnormal=False)), st.sampled_from(["M1", "M2a", "M2b", "M3", "M5"]), st.integers(0, 10 ** 6), st.floats(0.05, 0.95),
                      st.sampled_from(KS), st.sampled_from(["same", "same", "include", "line", "line2", "lineself", "linebare"]), st.sampled_from(cols))

    def evaluate(case, ev):
        pr, kind, sidx, pf, k, placement, col = case
        sites = P.mutant_sites(pr)
        site = sites[sidx % len(sites)]
        h = hashlib.sha256(repr((pr, kind, site, pf, k, placement, col)).encode()).hexdigest()[:14]
        f, nt = check(tc, pr, kind, site, pf, k, placement, col, ev, h)
        ev.case(h, nt, sample={"fault": kind, "site": list(site), "k": k, "placement": placement, "column": col} if nt else None,
                classes=["fault_" + kind, "k_%d" % k, "place_" + placement, "col_%d" % col])
        if f is not None:
            f2, _ = check(tc, pr, kind, site, pf, k, placement, col, Ev(), h + "r")
            if f2 is None:
                ev.inconclusive += 1
                return None
        return f
    f = hyp_run(ID, strat, evaluate, derive_seed(seed, "c15", idx), n, ev, shrink_cap=40)
    return result(ev, [f] if f else [])


def run(ctx):
    n = ctx.n(120, 1500)
    ctx.pmap(_worker, [(ctx.tc, ctx.seed, i, n) for i in range(16)])


def replay(ctx, case):
    r = compile_text(ctx.tc, case["files"], "replay")
    d = [x for x in diagnostics(r.text()) if x[3] in ("Error", "Fatal Error")]
    if "expect_line" in case:
        if not [x for x in d if x[1] == case["expect_line"] and x[2] == case["expect_col"]]:
            return Fail({"kind": "absolute-position", "fault": case.get("kind", "?"), "column": "wide" if case["expect_col"] >= 16384 else "narrow", "what": "planted token at line %d column %d reported at %s" % (case["expect_line"], case["expect_col"], [(x[1], x[2]) for x in d][:3])}, case)
        return None
    if "expect_file" in case:
        if not [x for x in d if x[0] and x[0].endswith(case["expect_file"]) and x[1] == case["expect_fline"]]:
            return Fail({"kind": "line-directive-position" if "#line" in case["files"]["p.as"] else "include-position", "fault": case.get("kind", "?"),
                         "what": "expected a diagnostic at %s line %d, reported: %s" % (case["expect_file"], case["expect_fline"], [(x[0], x[1], x[2]) for x in d][:3])}, case)
        return None
    if "base" in case:
        r0 = compile_text(ctx.tc, case["base"], "replay0")
        d0 = diagnostics(r0.text()); d1 = diagnostics(r.text()); k = case["k"]; p = case["p"]
        want = [(x[0], x[1] + k if x[1] > p else x[1], x[2], x[3], x[4]) for x in d0]
        if want != d1:
            return Fail({"kind": "shift-law", "k": str(k), "fault": case.get("kind", "?"), "what": "shift law violated on replay"}, case)
    return None
