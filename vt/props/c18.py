"""C18 A successful exit means every requested output was written: write / open faults injected on each output kind."""
import hashlib, os, re, resource, shutil

from .. import aldor, findings
from .. import run as R
from ..check import Fail, result
from ..evidence import Ev

ID = "C18"
LEVEL = "fault_enumeration"
RULE = ("case = (source program, requested output kind in {ai, ap, asy, ao, fm, lsp, c, java, main(c+aldormain)}, fault on that output); faults: target "
        "is a symlink to /dev/full; target is a directory; target lies in a directory that does not exist; the n-th write(2) to the target fails with "
        "ENOSPC or EIO for every n up to the number of writes of an intact run (strace -e inject, only calls touching that path); RLIMIT_FSIZE set "
        "to L for a sweep of L below the intact size. Oracle: intact run exits 0 with complete files; a delivered fault must give >= 1 error message "
        "and a non-zero exit; and in every case exit 0 implies every requested file exists and is byte-identical to the reference. "
        "Non-trivial = the fault was actually delivered (strace log shows (INJECTED), limit below reference size, or path fault applies); "
        "distinct = (program, kind, fault).")
ASSUMPTIONS = ["only calls on the chosen output path are failed; standard output (where messages go) is never failed",
               "whether other outputs are still written after a failure is not constrained"]

SRC = {
    "small": '''#include "aldor"
#include "aldorio"
import from MachineInteger, Integer, String, List MachineInteger;
f(n: Integer): Integer == if n < 2 then 1 else n * f(n - 1);
g(l: List MachineInteger): MachineInteger == { s: MachineInteger := 0; for x in l repeat s := s + x; s }
stdout << "@ " << f(12) << " " << g([1,2,3,4]) << newline;
''',
    "domain": '''#include "aldor"
#include "aldorio"
import from MachineInteger, Integer, String;
Cat: Category == with { val: % -> Integer; mk: Integer -> %; dbl: % -> Integer; default { dbl(x: %): Integer == 2 * val x } };
Dom(k: Integer): Cat == add { Rep == Integer; import from Rep; val(x: %): Integer == rep(x) + k; mk(z: Integer): % == per z; }
import from Dom(7);
stdout << "@ " << dbl(mk(1)$Dom(7))$Dom(7) << newline;
''',
}
KINDS = {   # kind: (option letter(s), file name)
    "ai": "p.ai", "ap": "p.ap", "asy": "p.asy", "ao": "p.ao", "fm": "p.fm", "lsp": "p.lsp", "c": "p.c", "java": "p.java",
    "main": "p-aldormain.c",      # -Fmain takes no path: the file is always <name>-aldormain.c in the working directory
}


def cmd(tc, kind, path, extra=()):
    if kind == "main":
        return aldor.aldor_cmd(tc, "aldor", ["-Fmain"] + list(extra), ["p.as"])
    return aldor.aldor_cmd(tc, "aldor", ["-F%s=%s" % (kind, path)] + list(extra), ["p.as"])


def real(tgt, kind):
    """the file the compiler actually writes for -F<kind>=<tgt> (Java output goes to <dir>/aldorcode/<name>)"""
    if kind == "java":
        return os.path.join(os.path.dirname(tgt), "aldorcode", os.path.basename(tgt))
    if kind == "main":
        return os.path.basename(tgt)
    return tgt


def fresh(tag):
    wd = os.path.join(R.WORK, "c18-%d-%s" % (os.getpid(), tag))
    shutil.rmtree(wd, ignore_errors=True)
    os.makedirs(wd)
    return wd


def reference(tc, prog, kind):
    wd = fresh("ref")
    try:
        R.write(os.path.join(wd, "p.as"), SRC[prog])
        os.makedirs(os.path.join(wd, "out"))
        tgt = os.path.join("out", KINDS[kind])
        r = R.run(cmd(tc, kind, tgt), cwd=wd, cpu=60)
        p = os.path.join(wd, real(tgt, kind))
        if not r.ok or not os.path.exists(p):
            return None, 0
        data = open(p, "rb").read()
        # number of write(2) calls to that path in an intact run
        log = os.path.join(wd, "st.log")
        os.unlink(p)
        R.run(["strace", "-f", "-o", log, "-e", "trace=write", "-P", p] + cmd(tc, kind, tgt), cwd=wd, cpu=120)
        nw = 0
        try:
            nw = sum(1 for l in open(log, errors="replace") if "write(" in l)
        except OSError:
            pass
        return data, nw
    finally:
        shutil.rmtree(wd, ignore_errors=True)


def one(tc, prog, kind, fault, ref):
    """run one faulted compilation; returns (delivered, verdict or None, detail)"""
    wd = fresh(hashlib.sha256(repr((prog, kind, fault)).encode()).hexdigest()[:10])
    try:
        R.write(os.path.join(wd, "p.as"), SRC[prog])
        os.makedirs(os.path.join(wd, "out"))
        tgt = os.path.join("out", KINDS[kind])
        full = os.path.join(wd, real(tgt, kind))
        os.makedirs(os.path.dirname(full), exist_ok=True)
        delivered = True
        fsize = None
        argv = cmd(tc, kind, tgt)
        if fault[0] == "devfull":
            os.symlink("/dev/full", full)
        elif fault[0] == "isdir":
            os.makedirs(full)
        elif fault[0] == "nodir" and kind != "main":
            tgt = os.path.join("missing", KINDS[kind])
            full = os.path.join(wd, real(tgt, kind))
            argv = cmd(tc, kind, tgt)
        elif fault[0] == "inject":
            log = os.path.join(wd, "st.log")
            argv = ["strace", "-f", "-o", log, "-e", "trace=write", "-P", full, "-e", "inject=write:error=%s:when=%s" % (fault[1], fault[2])] + argv
        elif fault[0] == "fsize":
            fsize = fault[1]
        r = R.run(argv, cwd=wd, cpu=120, fsize=fsize)
        if fault[0] == "inject":
            try:
                delivered = "(INJECTED)" in open(os.path.join(wd, "st.log"), errors="replace").read()
            except OSError:
                delivered = False
        if fault[0] == "fsize":
            delivered = fault[1] < len(ref)
        t = r.text()
        haserr = aldor.has_error(t)
        got = None
        if os.path.isfile(full) and not os.path.islink(full):
            got = open(full, "rb").read()
        verdict = None
        if aldor.has_fault(r) and not (fault[0] == "fsize" and r.sig == 25):
            verdict = "fault"
        elif r.rc == 0 and r.sig is None:
            if fault[0] in ("devfull", "isdir"):
                verdict = "exit0-output-missing"
            elif got != ref:      # (a target in a missing directory is fine if the compiler creates it and the file is complete)
                verdict = "exit0-output-incomplete"
            elif delivered and fault[0] == "inject":
                verdict = None       # the write was retried / output nevertheless complete
        elif delivered and not haserr:
            verdict = "failure-without-message"
        return delivered, verdict, "rc=%s sig=%s size=%s/%d %s" % (r.rc, r.sig, None if got is None else len(got), len(ref), t[-150:].replace("\n", " | "))
    finally:
        shutil.rmtree(wd, ignore_errors=True)


def _work(args):
    tc, jobs, refs = args
    ev = Ev()
    fails = []
    for prog, kind, fault in jobs:
        ref, nw = refs[(prog, kind)]
        delivered, verdict, detail = one(tc, prog, kind, fault, ref)
        key = "%s|%s|%s" % (prog, kind, "|".join(str(x) for x in fault))
        ev.case(key, delivered, sample={"program": prog, "kind": kind, "fault": list(fault), "outcome": detail} if delivered and len(ev.samples) < 2 else None,
                classes=["kind_" + kind, "fault_" + fault[0], "verdict_" + (verdict or "ok"), "delivered" if delivered else "not_delivered"])
        if verdict is not None:
            desc = {"kind": kind, "fault": fault[0], "verdict": verdict,
                    "what": "-F%s with fault %s: %s (%s)" % (kind, fault, verdict, detail)}
            fails.append(Fail(desc, {"program": prog, "kind": kind, "fault": list(fault)}))
            if findings.match(ID, desc) is None:
                break
    return result(ev, fails)


def run(ctx):
    refs = {}
    progs = list(SRC)
    jobs = []
    for prog in progs:
        for kind in KINDS:
            ref, nw = reference(ctx.tc, prog, kind)
            if ref is None:
                print("INFRA-ERROR intact -F%s run failed" % kind)
                raise SystemExit(2)
            refs[(prog, kind)] = (ref, nw)
            ctx.ev.classes["writes_%s" % kind] = nw
            jobs += [(prog, kind, ("devfull",)), (prog, kind, ("isdir",)), (prog, kind, ("nodir",))]
            ns = list(range(1, nw + 1))
            for n in ns:
                jobs.append((prog, kind, ("inject", "ENOSPC", str(n))))
                jobs.append((prog, kind, ("inject", "EIO", str(n))))
                jobs.append((prog, kind, ("inject", "ENOSPC", "%d+" % n)))
                if not ctx.quick:
                    jobs.append((prog, kind, ("inject", "EDQUOT", str(n))))
                    jobs.append((prog, kind, ("inject", "EFBIG", "%d+" % n)))
            L = len(ref)
            lims = sorted(set([0, 1, L // 2, L - 1] if ctx.quick else [0, 1, 2, 100, L // 4, L // 2, 4095, 4096, 4097, 8192, L - 100, L - 2, L - 1] + list(range(0, L, max(1, L // 40)))))
            for lim in lims:
                if 0 <= lim < L:
                    jobs.append((prog, kind, ("fsize", lim)))
    chunks = [jobs[i::32] for i in range(32)]
    ctx.pmap(_work, [(ctx.tc, ch, refs) for ch in chunks if ch], stop_on_fail=True)


def replay(ctx, case):
    prog, kind, fault = case["program"], case["kind"], tuple(case["fault"])
    ref, nw = reference(ctx.tc, prog, kind)
    res = _work((ctx.tc, [(prog, kind, fault)], {(prog, kind): (ref, nw)}))
    if res["fails"]:
        f = res["fails"][0]
        return Fail(f["desc"], case, f["what"])
    return None
