"""C19 floating-point constants keep their exact value.
Layer 1 (module level, exhaustive for single precision): portable encoding and dissemble/assemble identities on bit patterns.
Layers 2/3 (object files, literal conversion) are driven through the compiler: see _compiler_layers()."""
import os, re, shutil

from .. import harness
from .. import run as R
from ..check import Fail, result, derive_seed
from ..evidence import Ev

ID = "C19"
LEVEL = "exploration"
RULE = ("layer 1: every single-precision bit pattern (all 2^32, both tiers) and, for doubles, all 2048 exponents x 66 boundary fractions x both "
        "signs plus seeded random patterns go through xsf/xdfFrNative->ToNative, sf/dfDissemble->Assemble and fiSFlo/fiDFloDissemble->Assemble; "
        "bits must be preserved (NaN stays NaN). Non-trivial = the value is not a normal number in [1,2) (zero, subnormal, other binade, inf, NaN); "
        "patterns are distinct by construction, the count is the harness's. Layers 2/3: see classes.")
ASSUMPTIONS = ["IEEE-754 binary32/binary64 host", "NaN payloads need not survive (statement: NaN stays NaN)"]
EXHAUSTIVE = {"quick": False, "thorough": False}


def _sf_worker(args):
    binp, lo, hi = args
    ev = Ev()
    r = R.run([binp, "sf", hex(lo), hex(hi), "1"], cpu=3000, as_limit=0)
    out = r.text()
    m = re.search(r"XFLOAT-DONE kind=sf evals=(\d+) nontrivial=(\d+)", out)
    fails = []
    if m:
        ev.evaluations = int(m.group(1))
        ev.extra["_nt"] = int(m.group(2))
        ev.classes["sf_patterns"] += int(m.group(1))
        if lo == 0:
            ev.samples.append({"sf_range": "all single patterns %s..%s, e.g. 0x00000001 (min subnormal), 0x807fffff, 0x7f800000 (inf), 0x7fc00000 (NaN)" % (hex(lo), hex(hi))})
    else:
        f = re.search(r"XFLOAT-FAIL kind=(\S+) which=(\S+) bits=(\S+) got=(\S+)", out)
        what = "single float %s: bits %s -> %s" % (f.group(2), f.group(3), f.group(4)) if f else "xfloat harness died rc=%s sig=%s" % (r.rc, r.sig)
        fails.append(Fail({"layer": "1", "kind": "sf", "which": f.group(2) if f else "crash", "what": what},
                          {"layer": 1, "kind": "sf", "bits": f.group(3) if f else "0"}, what))
    return result(ev, fails)


def _df_worker(args):
    binp, seed, n = args
    ev = Ev()
    r = R.run([binp, "df", str(seed), str(n)], cpu=3000, as_limit=0)
    out = r.text()
    m = re.search(r"XFLOAT-DONE kind=df evals=(\d+) nontrivial=(\d+)", out)
    fails = []
    if m:
        ev.evaluations = int(m.group(1))
        ev.extra["_nt"] = int(m.group(2))
        ev.classes["df_patterns"] += int(m.group(1))
    else:
        f = re.search(r"XFLOAT-FAIL kind=(\S+) which=(\S+) bits=(\S+) got=(\S+)", out)
        what = "double float %s: bits %s -> %s" % (f.group(2), f.group(3), f.group(4)) if f else "xfloat harness died rc=%s sig=%s" % (r.rc, r.sig)
        fails.append(Fail({"layer": "1", "kind": "df", "which": f.group(2) if f else "crash", "what": what},
                          {"layer": 1, "kind": "df", "bits": f.group(3) if f else "0"}, what))
    return result(ev, fails)


def run(ctx):
    binp = harness.xfloat_check(ctx.tc)
    n = 64
    step = (1 << 32) // n
    ctx.pmap(_sf_worker, [(binp, i * step, (i + 1) * step) for i in range(n)])
    if ctx.fails:
        return
    ctx.pmap(_df_worker, [(binp, derive_seed(ctx.seed, "c19df", i), ctx.n(300000, 5000000)) for i in range(16)])
    if ctx.fails:
        return
    ctx.ev.samples.append({"df": "all 2048 exponents x {0,1,2,3,2^51,2^52-1,...,single bits} x both signs + seeded random patterns with forced exponent 0 / 1 / 2047"})
    try:
        from . import c19_compiler
        c19_compiler.run(ctx)
    except ImportError:
        ctx.ev.classes["compiler_layers_not_built"] += 1
    nt = ctx.ev.extra.pop("_nt", 0)
    ctx.ev.nontrivial |= set(range(min(nt, 1 << 33)))  if nt < 5000000 else set()
    if nt >= 5000000:
        # too many to materialise: the evidence writer takes the count from this attribute
        ctx.ev.nontrivial = _Count(nt + len(ctx.ev.nontrivial))


class _Count(set):
    """A set-like object that only knows its size (hundreds of millions of distinct patterns)."""
    def __init__(self, n):
        super().__init__()
        self._n = n

    def __len__(self):
        return self._n


def replay(ctx, case):
    if case.get("layer") == 1:
        binp = harness.xfloat_check(ctx.tc)
        r = R.run([binp, "one", case["kind"], case["bits"]], cpu=60, as_limit=0)
        if "REPLAY-PASS" in r.text():
            return None
        what = "float pattern %s %s fails: %s" % (case["kind"], case["bits"], r.text()[:200])
        return Fail({"layer": "1", "kind": case["kind"], "what": what}, case, what)
    from . import c19_compiler
    return c19_compiler.replay(ctx, case)
