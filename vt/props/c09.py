"""C09 Garbage collection never changes what a program computes: forced collection schedules vs a run without collection."""
import hashlib, os, re, shutil

from .. import aldor, findings
from .. import progcheck as PC
from .. import run as R
from ..check import Fail, result, derive_seed, hyp_run
from ..evidence import Ev
from ..gen import prog as P
from hypothesis import strategies as st

ID = "C09"
LEVEL = "exploration"
RULE = ("case = (allocation-heavy generated program: long lists, arrays, records in closures, string building, generators, big-integer arithmetic; "
        "route in {compiled executable, interpreter}; schedule (k, j) = collect at every allocation n with n mod k = j). Executables: k from the "
        "sweep {1,2,3,5,8,13,21,34,55,89,144,233,377,610,987}; interpreter: k in [331,1000] over the whole run (its own compilation allocates "
        "~3e5 blocks first). Freed storage is washed with 0xDD by the hook. Oracle: '@ ' lines and exit class equal those of the same route with "
        "the collector never running (hook mode 'never' / -Wno-gc); no storage fault. Non-trivial = >= 3 forced collections happened (hook "
        "report on fd 3) and the program printed >= 3 lines after allocating; distinct = (program, route, k, j). Scale family: one live chain "
        "of n cells (List cons cells, records linked through their last field, records linked through their first field; n up to 300000, the "
        "first-field shape up to 20000 because of C09-K42) with heap churn beside it, a few collections, sum of the chain printed; expected "
        "output in closed form, with and without collection. Every collecting run has an open-file limit of 40.")
ASSUMPTIONS = ["schedules are of the form 'every k-th allocation from offset j' (hook ALDOR_VERIF_GC), not arbitrary subsets",
               "conservative retention can only keep more, so no expected value depends on what is collected"]
KS = [1, 2, 3, 5, 8, 13, 21, 34, 55, 89, 144, 233, 377, 610, 987]


NOFILE = 40     # open-file limit of every run that collects: a collector that keeps a descriptor per collection runs out within 40 collections


def run_with_fd3(argv, cwd, env, cpu, nofile=None):
    log = os.path.join(cwd, "gc.log")
    if os.path.exists(log):
        os.unlink(log)
    r = R.run(["sh", "-c", 'exec "$@" 3>gc.log', "sh"] + argv, cwd=cwd, env=env, cpu=cpu, nofile=nofile)
    forced = allocs = 0
    try:
        m = re.search(r"VERIF-GC forced=(\d+) allocs=(\d+)", open(log).read())
        if m:
            forced, allocs = int(m.group(1)), int(m.group(2))
    except OSError:
        pass
    return r, forced, allocs


def outcome(r):
    cls = "signal%d" % r.sig if r.sig is not None else ("ok" if r.rc == 0 else "fail")
    return aldor.marker_lines(r), cls


def check(tc, src, route, k, j, ev, h):
    with R.WorkDir("c09-" + h) as wd:
        PC.write_prog(wd, src)
        sched = "%d:%d" % (k, j % k)
        if route == "c":
            fr, exe = aldor.build_exe(tc, wd, "p.as", ["-Q1"])
            if fr is not None:
                ev.classes["build_failed"] += 1
                return None, False
            r0, _, _ = run_with_fd3([exe], wd, {"ALDOR_VERIF_GC": "never"}, 60)
            r1, forced, allocs = run_with_fd3([exe], wd, {"ALDOR_VERIF_GC": sched}, 150, nofile=NOFILE)
        else:
            argv = aldor.aldor_cmd(tc, "aldor", ["-Q1", "-Ginterp"], ["p.as"])
            r0, _, _ = run_with_fd3(aldor.aldor_cmd(tc, "aldor", ["-Q1", "-Wno-gc", "-Ginterp"], ["p.as"]), wd, {}, 60)
            r1, forced, allocs = run_with_fd3(argv, wd, {"ALDOR_VERIF_GC": sched}, 150, nofile=NOFILE)
        if r0.cpu_hit or aldor.has_error(r0.text()) or (route == "interp" and aldor.has_fault(r0)):
            ev.classes["reference_unusable"] += 1
            return None, False
        l0, c0 = outcome(r0)
        l1, c1 = outcome(r1)
        nt = forced >= 3 and len(l0) >= 3
        ev.classes["route_" + route] += 1
        ev.extra["forced_collections"] = ev.extra.get("forced_collections", 0) + forced
        if r1.cpu_hit:
            ev.inconclusive += 1
            return None, nt
        err = r1.err.decode("latin-1")
        if l0 != l1 or c0 != c1 or "Storage allocation error" in err or (route == "interp" and aldor.has_fault(r1)):
            i, a, b = PC.first_diff(l0, l1)
            what = "route %s, schedule %s (%d collections in %d allocations): exit %s vs %s without collection; first difference at line %d: %r vs %r; %s" % (
                route, sched, forced, allocs, c1, c0, i, b, a, (err[-150:] + r1.text()[-150:]).replace("\n", " | "))
            return Fail({"kind": "gc-changes-behaviour", "route": route, "what": what}, {"src": src, "route": route, "k": k, "j": j}), nt
        return None, nt


# ---- scale family: one long live chain, heap churn beside it, a few collections; expected output in closed form
K42_KNOWN = any(f["id"] == "C09-K42-marker-recursion" for f in findings.known(ID))
SCALE_HDR = """#include "aldor"
#include "aldorio"
import from MachineInteger, Integer, List MachineInteger, String, TextWriter, Character;
"""


def scale_source(shape, n, m):
    churn = "\ts: MachineInteger := 0;\n\tfor j: MachineInteger in 1..%d repeat { t: List MachineInteger := [j, j + 1, j + 2]; s := s + first t; }\n" % m
    if shape == "list":        # cons cells: the link is the last word of each cell
        body = ("\tl: List MachineInteger := empty;\n\tfor i: MachineInteger in 1..%d repeat l := cons(i, l);\n" % n + churn +
                "\ttot: Integer := 0;\n\tfor x in l repeat tot := tot + x::Integer;\n")
        pre = ""
    else:
        fields = "v: MachineInteger, nx: Pointer" if shape == "rec-last" else "nx: Pointer, v: MachineInteger"
        mk = "[i, p]" if shape == "rec-last" else "[p, i]"
        pre = "Nd ==> Record(%s);\nimport from Nd;\n" % fields
        body = ("\tp: Pointer := nil;\n\tfor i: MachineInteger in 1..%d repeat { r: Nd := %s; p := r pretend Pointer; }\n" % (n, mk) + churn +
                "\ttot: Integer := 0;\n\tq: Pointer := p;\n\twhile not nil? q repeat { r: Nd := q pretend Nd; tot := tot + (r.v)::Integer; q := r.nx; }\n")
    src = SCALE_HDR + pre + "main(): () == {\n" + body + "\tstdout << \"@ \" << tot << \" \" << s << newline;\n}\nmain();\n"
    return src, ["@ %d %d" % (n * (n + 1) // 2, m * (m + 1) // 2)]


def check_scale(tc, shape, n, m, route, k, ev):
    src, want = scale_source(shape, n, m)
    key = "scale|%s|%d|%d|%s|%d" % (shape, n, m, route, k)
    case = {"scale": shape, "n": n, "m": m, "route": route, "k": k}
    with R.WorkDir("c09s-" + hashlib.sha256(key.encode()).hexdigest()[:12]) as wd:
        PC.write_prog(wd, src)
        sched = "%d:%d" % (k, 7 % k)
        if route == "c":
            fr, exe = aldor.build_exe(tc, wd, "p.as", ["-Q1"])
            if fr is not None:
                return Fail({"kind": "build-failed", "route": route, "shape": shape, "what": "scale program does not build: %s" % fr.text()[-200:]}, case), False
            r0, _, _ = run_with_fd3([exe], wd, {"ALDOR_VERIF_GC": "never"}, 120)
            r1, forced, allocs = run_with_fd3([exe], wd, {"ALDOR_VERIF_GC": sched}, 150, nofile=NOFILE)
        else:
            r0, _, _ = run_with_fd3(aldor.aldor_cmd(tc, "aldor", ["-Q1", "-Wno-gc", "-Ginterp"], ["p.as"]), wd, {}, 300)
            r1, forced, allocs = run_with_fd3(aldor.aldor_cmd(tc, "aldor", ["-Q1", "-Ginterp"], ["p.as"]), wd, {"ALDOR_VERIF_GC": sched}, 900, nofile=NOFILE)
    l0, c0 = outcome(r0)
    l1, c1 = outcome(r1)
    nt = forced >= 2 and n >= 50000
    ev.case(key, nt, sample=dict(case, collections=forced, allocations=allocs) if nt and len(ev.samples) < 2 else None, classes=["scale_" + shape, "scale_route_" + route])
    ev.extra["forced_collections"] = ev.extra.get("forced_collections", 0) + forced
    if r0.cpu_hit or r1.cpu_hit:
        ev.inconclusive += 1
        return None, nt
    if l0 != want or c0 != "ok":
        return Fail({"kind": "scale-reference-wrong", "route": route, "shape": shape, "long": "yes" if n > 30000 else "no",
                     "what": "%s chain of %d without collection on route %s: %s %r, expected %r" % (shape, n, route, c0, l0, want)}, case), nt
    if l1 != want or c1 != "ok":
        return Fail({"kind": "gc-changes-behaviour", "route": route, "shape": shape, "long": "yes" if n > 30000 else "no",
                     "what": "%s chain of %d cells, route %s, schedule %s (%d collections): exit %s, output %r; without collection: ok %r; %s" % (
                         shape, n, route, sched, forced, c1, l1, want, (r1.err.decode("latin-1")[-120:] + r1.text()[-120:]).replace("\n", " | "))}, case), nt
    return None, nt


def _scale_worker(args):
    tc, job = args
    ev = Ev()
    f, _ = check_scale(tc, *job, ev)
    return result(ev, [f] if f else [])


def scale_jobs(quick, seed):
    import random
    rnd = random.Random(seed)
    jobs = []
    for shape in ("list", "rec-last", "rec-first"):
        sizes = [1000, 60000, 150000, 300000] if shape != "rec-first" or not K42_KNOWN else [1000, 8000, 20000]
        for n in sizes:
            for k in ([100003] if quick else [20011, 100003, 500009]):
                jobs.append((shape, n + rnd.randrange(0, 97), 60000 + rnd.randrange(0, 1000), "c", k))
        jobs.append((shape, sizes[-2] + rnd.randrange(0, 97), 20000, "interp", 150001))
    return jobs


def _worker(args):
    tc, seed, idx, n = args
    ev = Ev()
    strat = st.tuples(P.programs(P.Profile(alloc_heavy=True, abnormal=False, features=["func", "closure", "gener", "record", "array", "list", "bigz", "string", "loop", "recursion", "union", "libops", "tmpl"])),
                      st.sampled_from(["c", "c", "c", "interp"]), st.sampled_from(KS), st.integers(0, 1000), st.integers(331, 1000))

    def evaluate(case, ev):
        pr, route, k, j, ki = case
        try:
            P.evaluate(pr)      # programs whose result the language does not fix (machine-integer overflow, step budget) are not compared
        except P.OutOfModel:
            ev.classes["out_of_model"] += 1
            return None
        if route == "interp":
            k = ki
        src = P.render(pr)
        h = hashlib.sha256(repr((src, route, k, j)).encode()).hexdigest()[:14]
        f, nt = check(tc, src, route, k, j, ev, h)
        ev.case(h, nt, sample={"route": route, "schedule": "%d:%d" % (k, j % k), "source_tail": src[-400:]} if nt else None, classes=["k_le_13" if k <= 13 else ("k_le_144" if k <= 144 else "k_large")])
        if f is not None:
            f2, _ = check(tc, src, route, k, j, Ev(), h + "r")
            if f2 is None:
                ev.inconclusive += 1
                return None
        return f
    f = hyp_run(ID, strat, evaluate, derive_seed(seed, "c09", idx), n, ev)
    return result(ev, [f] if f else [])


def run(ctx):
    n = ctx.n(14, 250)
    if K42_KNOWN:
        ctx.ev.excluded_known["C09-K42-marker-recursion"] += 1      # rec-first chains stay below 30000 cells (the class is replayed from regress/)
    ctx.pmap(_scale_worker, [(ctx.tc, j) for j in scale_jobs(ctx.quick, ctx.seed)])
    if ctx.fails:
        return
    ctx.pmap(_worker, [(ctx.tc, ctx.seed, i, n) for i in range(16)])


def replay(ctx, case):
    if "scale" in case:
        f, _ = check_scale(ctx.tc, case["scale"], case["n"], case["m"], case["route"], case["k"], Ev())
        if f is not None:
            f.replay = case
        return f
    f, _ = check(ctx.tc, case["src"], case["route"], case["k"], case["j"], Ev(), "replay")
    if f is not None:
        f.replay = case
    return f
