"""C09 Garbage collection never changes what a program computes: forced collection schedules vs a run without collection."""
import hashlib, os, re, shutil

from .. import aldor
from .. import progcheck as PC
from .. import run as R
from ..check import Fail, result, derive_seed, hyp_run
from ..evidence import Ev
from ..gen import prog as P
from hypothesis import strategies as st

ID = "C09"
LEVEL = "exploration"
RULE = ("case = (allocation-heavy generated program: long lists, arrays, records in closures, string building, generators, big-integer arithmetic; "
        "route in {compiled executable, interpreter}; schedule (k, j) = collect at every allocation n with n mod k = j). Executables: k from the "
        "sweep {1,2,3,5,8,13,21,34,55,89,144,233,377,610,987}; interpreter: k in [331,1000] over the whole run (its own compilation allocates "
        "~3e5 blocks first). Freed storage is washed with 0xDD by the hook. Oracle: '@ ' lines and exit class equal those of the same route with "
        "the collector never running (hook mode 'never' / -Wno-gc); no storage fault. Non-trivial = >= 3 forced collections happened (hook "
        "report on fd 3) and the program printed >= 3 lines after allocating; distinct = (program, route, k, j).")
ASSUMPTIONS = ["schedules are of the form 'every k-th allocation from offset j' (hook ALDOR_VERIF_GC), not arbitrary subsets",
               "conservative retention can only keep more, so no expected value depends on what is collected"]
KS = [1, 2, 3, 5, 8, 13, 21, 34, 55, 89, 144, 233, 377, 610, 987]


def run_with_fd3(argv, cwd, env, cpu):
    log = os.path.join(cwd, "gc.log")
    if os.path.exists(log):
        os.unlink(log)
    r = R.run(["sh", "-c", 'exec "$@" 3>gc.log', "sh"] + argv, cwd=cwd, env=env, cpu=cpu)
    forced = allocs = 0
    try:
        m = re.search(r"VERIF-GC forced=(\d+) allocs=(\d+)", open(log).read())
        if m:
            forced, allocs = int(m.group(1)), int(m.group(2))
    except OSError:
        pass
    return r, forced, allocs


def outcome(r):
    cls = "signal%d" % r.sig if r.sig is not None else ("ok" if r.rc == 0 else "fail")
    return aldor.marker_lines(r), cls


def check(tc, src, route, k, j, ev, h):
    with R.WorkDir("c09-" + h) as wd:
        PC.write_prog(wd, src)
        sched = "%d:%d" % (k, j % k)
        if route == "c":
            fr, exe = aldor.build_exe(tc, wd, "p.as", ["-Q1"])
            if fr is not None:
                ev.classes["build_failed"] += 1
                return None, False
            r0, _, _ = run_with_fd3([exe], wd, {"ALDOR_VERIF_GC": "never"}, 60)
            r1, forced, allocs = run_with_fd3([exe], wd, {"ALDOR_VERIF_GC": sched}, 600)
        else:
            argv = aldor.aldor_cmd(tc, "aldor", ["-Q1", "-Ginterp"], ["p.as"])
            r0, _, _ = run_with_fd3(aldor.aldor_cmd(tc, "aldor", ["-Q1", "-Wno-gc", "-Ginterp"], ["p.as"]), wd, {}, 60)
            r1, forced, allocs = run_with_fd3(argv, wd, {"ALDOR_VERIF_GC": sched}, 600)
        if r0.cpu_hit or aldor.has_error(r0.text()) or (route == "interp" and aldor.has_fault(r0)):
            ev.classes["reference_unusable"] += 1
            return None, False
        l0, c0 = outcome(r0)
        l1, c1 = outcome(r1)
        nt = forced >= 3 and len(l0) >= 3
        ev.classes["route_" + route] += 1
        ev.extra["forced_collections"] = ev.extra.get("forced_collections", 0) + forced
        if r1.cpu_hit:
            ev.inconclusive += 1
            return None, nt
        err = r1.err.decode("latin-1")
        if l0 != l1 or c0 != c1 or "Storage allocation error" in err or (route == "interp" and aldor.has_fault(r1)):
            i, a, b = PC.first_diff(l0, l1)
            what = "route %s, schedule %s (%d collections in %d allocations): exit %s vs %s without collection; first difference at line %d: %r vs %r; %s" % (
                route, sched, forced, allocs, c1, c0, i, b, a, (err[-150:] + r1.text()[-150:]).replace("\n", " | "))
            return Fail({"kind": "gc-changes-behaviour", "route": route, "what": what}, {"src": src, "route": route, "k": k, "j": j}), nt
        return None, nt


def _worker(args):
    tc, seed, idx, n = args
    ev = Ev()
    strat = st.tuples(P.programs(P.Profile(alloc_heavy=True, abnormal=False, features=["func", "closure", "gener", "record", "array", "list", "bigz", "string", "loop", "recursion", "union"])),
                      st.sampled_from(["c", "c", "c", "interp"]), st.sampled_from(KS), st.integers(0, 1000), st.integers(331, 1000))

    def evaluate(case, ev):
        pr, route, k, j, ki = case
        if route == "interp":
            k = ki
        src = P.render(pr)
        h = hashlib.sha256(repr((src, route, k, j)).encode()).hexdigest()[:14]
        f, nt = check(tc, src, route, k, j, ev, h)
        ev.case(h, nt, sample={"route": route, "schedule": "%d:%d" % (k, j % k), "source_tail": src[-400:]} if nt else None, classes=["k_le_13" if k <= 13 else ("k_le_144" if k <= 144 else "k_large")])
        if f is not None:
            f2, _ = check(tc, src, route, k, j, Ev(), h + "r")
            if f2 is None:
                ev.inconclusive += 1
                return None
        return f
    f = hyp_run(ID, strat, evaluate, derive_seed(seed, "c09", idx), n, ev)
    return result(ev, [f] if f else [])


def run(ctx):
    n = ctx.n(14, 250)
    ctx.pmap(_worker, [(ctx.tc, ctx.seed, i, n) for i in range(16)])


def replay(ctx, case):
    f, _ = check(ctx.tc, case["src"], case["route"], case["k"], case["j"], Ev(), "replay")
    if f is not None:
        f.replay = case
    return f
