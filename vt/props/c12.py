"""C12 The Java back end agrees with the other execution routes: generated programs x levels, java run vs interpreter."""
import hashlib, re, os

from .. import aldor, findings
from .. import progcheck as PC
from .. import run as R
from ..check import Fail, result, derive_seed, hyp_run
from ..evidence import Ev
from ..gen import prog as P
from hypothesis import strategies as st

ID = "C12"
LEVEL = "exploration"
RULE = ("case = (generated program restricted to what genjava implements: machine integers within +-2^30 (32-bit there), big integers, booleans, "
        "strings, lists, arrays, records, unions, closures, generators, macros, overloading, parametrised domains, an uncaught exception / failed "
        "assertion / never / error as abnormal end, no try/catch (genjava reports 'Java not implemented: Tag: Catch'); level in {-Q1,-Q3,-Q9}). "
        "Oracle: aldor -Fjava -Jmain exits 0, javac against foamj.jar:foam.jar:aldor.jar succeeds, and java aldorcode.p prints the same '@ ' lines "
        "with the same exit class as aldor -Ginterp at the same level. Non-trivial = >= 3 distinct lines and a closure, record, list or generator "
        "feature; distinct = (program, level).")
ASSUMPTIONS = ["radix integer literals are excluded while known finding C12-K28 is listed (the Java runtime cannot convert them)",
               "(program, -Q9) with a recursive function is excluded (C02-K8)"]
RADIX_KNOWN = any(f["id"] == "C12-K28-radix-literal" for f in findings.known(ID))


NOTSTMT_KNOWN = any(f["id"] == "C12-K29-not-a-statement" for f in findings.known(ID))


def guard_not(e):
    """known finding K29: a Boolean local whose initialiser is a `not` expression and that is never used leaves '!expr;' in the Java"""
    if not isinstance(e, tuple) or not e:
        return e
    if e[0] == "decl" and e[2] == P.BOOL and isinstance(e[3], tuple) and e[3] and e[3][0] == "not":
        return ("decl", e[1], e[2], ("and", guard_not(e[3]), ("lit", P.BOOL, True, "dec")))
    return tuple(guard_not(x) for x in e)


def strip_radix(e):
    if not isinstance(e, tuple) or not e:
        return e
    if e[0] == "lit" and len(e) == 4 and e[3] != "dec":
        return (e[0], e[1], e[2], "dec")
    return tuple(strip_radix(x) for x in e)


def java_run(tc, wd, level):
    r = aldor.compile_(tc, wd, ["p.as"], [level, "-Fjava", "-Jmain"], cpu=120)
    o = PC.classify_compile(tc, r)
    if o is not None:
        return o
    jf = os.path.join(wd, "aldorcode", "p.java")
    if not os.path.exists(jf):
        return PC.Outcome("rejected", text="no aldorcode/p.java written: " + r.text()[:300], res=r)
    cp = tc.javacp()
    jc = R.run(["javac", "-nowarn", "-cp", cp, "aldorcode/p.java"], cwd=wd, cpu=300, as_limit=0)
    if not jc.ok:
        et = jc.text() + jc.err.decode("latin-1")
        import re as _re
        m = _re.search(r"error: (.*)", et)
        o = PC.Outcome("javacfail", text=et[:800], res=jc)
        o.site = m.group(1).strip() if m else ""
        return o
    jr = R.run(["java", "-Xss16m", "-cp", ".:" + cp, "aldorcode.p"], cwd=wd, cpu=300, as_limit=0)
    if jr.cpu_hit:
        return PC.Outcome("hang", text="java run exceeded the CPU limit", res=jr)
    return PC.Outcome("ran", aldor.marker_lines(jr), "ok" if jr.rc == 0 else "fail", text=jr.text() + jr.err.decode("latin-1")[:2000], res=jr)


def check(tc, src, level, ev, h):
    with R.WorkDir("c12-" + h) as wd:
        PC.write_prog(wd, src)
        oi = PC.run_interp(tc, wd, "p.as", [level])
        if oi.kind != "ran":
            ev.classes["interp_" + oi.kind] += 1
            return None, False
        oj = java_run(tc, wd, level)
        ev.classes["java_" + oj.kind] += 1
        nt = len(set(oi.lines)) >= 3
        case = {"src": src, "level": level}
        if oj.kind != "ran":
            what = "%s: Java route fails where the interpreter runs: %s" % (level, oj.brief()[:400])
            return Fail({"kind": oj.kind, "level": level, "site": oj.site, "what": what}, case), nt
        if oj.lines != oi.lines or oj.cls != oi.cls:
            i, a, b = PC.first_diff(oi.lines, oj.lines)
            exc = ""
            for tag in ("NumberFormatException", "ClassCastException", "NullPointerException", "ArrayIndexOutOfBounds", "StackOverflowError"):
                if tag in oj.text:
                    exc = tag
            if not exc:
                m = re.search(r'Exception in thread "main" ([\w.$]+)[^\n]*\n\s+at ([\w.$]+)\(', oj.text)
                if m:
                    exc = "%s@%s" % (m.group(1), m.group(2))
            what = "%s: java vs interpreter: exit class %s vs %s; first difference at line %d: interp %r, java %r %s" % (level, oj.cls, oi.cls, i, a, b, exc)
            return Fail({"kind": "mismatch", "level": level, "java_exception": exc, "src_sha": hashlib.sha256(src.encode()).hexdigest()[:16], "what": what}, case), nt
        return None, nt


def _worker(args):
    tc, seed, idx, n = args
    ev = Ev()
    strat = st.tuples(P.programs(P.Profile(java=True, window=2 ** 30, size=10)), st.sampled_from(["-Q1", "-Q1", "-Q3", "-Q9"]))

    def evaluate(case, ev):
        pr, level = case
        if RADIX_KNOWN:
            pr2 = strip_radix(pr)
            if pr2 != pr:
                ev.excluded_known["C12-K28-radix-literal"] += 1
            pr = pr2
        if NOTSTMT_KNOWN:
            pr2 = guard_not(pr)
            if pr2 != pr:
                ev.excluded_known["C12-K29-not-a-statement"] += 1
            pr = pr2
        if level == "-Q9" and P.has_recursion(pr):
            ev.excluded_known["C02-K8-q9-recursion-diverges"] += 1
            level = "-Q3"
        try:
            P.evaluate(pr, 2 ** 30)          # keeps machine integers inside the 32-bit window of the Java runtime
        except P.OutOfModel:
            ev.classes["out_of_model"] += 1
            return None
        src = P.render(pr)
        h = hashlib.sha256((src + level).encode()).hexdigest()[:14]
        f, nt = check(tc, src, level, ev, h)
        feats = set(pr[4])
        nt = nt and bool(feats & {"closure", "record", "list", "gener"})
        ev.case(h, nt, sample={"level": level, "source_tail": src[-500:]} if nt else None, classes=["level_" + level] + ["feat_" + x for x in feats])
        if f is not None:
            f2, _ = check(tc, src, level, Ev(), h + "r")
            if f2 is None:
                ev.inconclusive += 1
                return None
        return f
    f = hyp_run(ID, strat, evaluate, derive_seed(seed, "c12", idx), n, ev, shrink_cap=8)
    return result(ev, [f] if f else [])


def run(ctx):
    n = ctx.n(7, 100)
    ctx.pmap(_worker, [(ctx.tc, ctx.seed, i, n) for i in range(16)])


def replay(ctx, case):
    f, _ = check(ctx.tc, case["src"], case["level"], Ev(), "replay")
    if f is not None:
        f.replay = case
    return f
