"""C13 Interactive evaluation equals batch evaluation: -Gloop fed form by form vs -Ginterp of the whole file, with rejected forms interleaved."""
import hashlib, os

from .. import aldor
from .. import progcheck as PC
from .. import run as R
from ..check import Fail, result, derive_seed, hyp_run
from ..evidence import Ev
from ..gen import prog as P
from hypothesis import strategies as st

ID = "C13"
LEVEL = "exploration"
RULE = ("case = (generated file-level program made of independent top-level forms: definitions, variable declarations / assignments, output "
        "statements; each form rendered on one line) plus erroneous forms from the ill-typed catalogue (wrong argument type, "
        "wrong arity, undefined name, assignment to a top-level constant / function) inserted at drawn positions. Oracle: the '@ ' lines printed by aldor -Gloop reading the "
        "forms from standard input equal, in order, the '@ ' lines of aldor -Ginterp on the same file without the erroneous forms, and the "
        "session shows >= 1 (Error) per erroneous form. Non-trivial = >= 1 erroneous form is followed by >= 2 accepted forms that print; "
        "distinct = hash of the form sequence.")
ASSUMPTIONS = ["only marker lines are compared: banner, timing lines and value echoes are tool text",
               "a program that batch interpretation itself rejects is skipped (verdict belongs to C01 / C06)"]

BAD = [
    lambda n: 'prMI("", undefinedNameQ%d);' % n,
    lambda n: "qv%d: MachineInteger := hlpQ();" % n,
    lambda n: "qv%d: MachineInteger := hlpQ((1@MachineInteger), (2@MachineInteger));" % n,
    lambda n: "qv%d: MachineInteger := hlpQ(mkTokQ()$TokQ);" % n,
    # rejected by the scope binder, not by type inference, and about a name that exists at top level
    lambda n: "cstQ := (4@MachineInteger);",
]   # ('hlpQ := 6', assignment to a top-level FUNCTION, is not used: known finding C13-K45)   # (the ambiguous-assignment entry is not used here: the interactive loop may legitimately resolve what a batch compile rejects)
PRE = [P.TOK_DECL, P.HLP_DECL, "ambQ(): MachineInteger == (1@MachineInteger);", "ambQ(): Integer == (2@Integer);", "cstQ: MachineInteger == (3@MachineInteger);"]


def forms_of(src):
    out, cur, bal = [], [], 0
    for l in src.split("\n"):
        if not l.strip():
            continue
        cur.append(l.strip())
        bal += l.count("{") - l.count("}")
        if bal == 0:
            out.append(" ".join(cur))
            cur = []
    if cur:
        out.append(" ".join(cur))
    return out


def check(tc, forms, bad_at, ev, h):
    """forms: accepted forms; bad_at: list of (index, text) inserted before forms[index]"""
    seq = []
    for i, f in enumerate(forms):
        for (bi, bt) in bad_at:
            if bi == i:
                seq.append(("bad", bt))
        seq.append(("ok", f))
    with R.WorkDir("c13-" + h) as wd:
        R.write(os.path.join(wd, "clean.as"), "\n".join(forms) + "\n")
        rb = aldor.interp(tc, wd, "clean.as", ["-Q1"])
        if aldor.has_error(rb.text()) or aldor.has_fault(rb) or rb.cpu_hit:
            ev.classes["batch_rejects_or_fails"] += 1
            return None, False
        want = aldor.marker_lines(rb)
        stdin = ("\n".join(t for _, t in seq) + "\n").encode()
        rl = R.run(aldor.aldor_cmd(tc, "aldor", ["-Q1", "-Gloop"], []), cwd=wd, stdin=stdin, cpu=120)
        tl = rl.text()
        got = aldor.marker_lines(rl)
        nbad = len(bad_at)
        nerr = tl.count("(Error)")
        # non-trivial: an erroneous form followed by >= 2 printing forms
        nt = False
        for k, (kind, t) in enumerate(seq):
            if kind == "bad" and sum(1 for kk, tt in seq[k + 1:] if kk == "ok" and tt.startswith("pr")) >= 2:
                nt = True
        case = {"forms": forms, "bad_at": [list(b) for b in bad_at]}
        if rl.cpu_hit:
            return Fail({"kind": "hang", "what": "the interactive loop exceeded the CPU limit"}, case), nt
        if aldor.has_fault(rl):
            site = aldor.fault_site(tc, tl)
            return Fail({"kind": "crash", "site": site, "what": "the interactive loop faulted [%s] (batch interpretation of the same forms runs)" % site}, case), nt
        if got != want:
            i, a, b = PC.first_diff(want, got)
            exc = "rtDelayedGetExport" if "<rtDelayedGetExport!>" in tl and "Unhandled Exception" in (tl + rl.err.decode("latin-1")) else ""
            return Fail({"kind": "mismatch", "loop_exception": exc, "what": "loop output differs from batch output at line %d: batch %r, loop %r (%d erroneous forms interleaved)%s" % (
                i, a, b, nbad, "; the session shows an unhandled RuntimeError in rtDelayedGetExport!" if exc else "")}, case), nt
        if nerr < nbad:
            return Fail({"kind": "error-not-reported", "what": "%d erroneous forms but only %d (Error) blocks in the session" % (nbad, nerr)}, case), nt
        return None, nt


def _worker(args):
    tc, seed, idx, n = args
    ev = Ev()
    strat = st.tuples(P.programs(P.Profile(toplevel=True, abnormal=False, size=14, forms_only=True)), st.lists(st.tuples(st.integers(0, 60), st.integers(0, len(BAD) - 1)), min_size=0, max_size=4))

    def evaluate(case, ev):
        pr, bads = case
        try:
            P.evaluate(pr)      # programs whose result the language does not fix, or that grow exponentially, are not compared
        except P.OutOfModel:
            ev.classes["out_of_model"] += 1
            return None
        forms = forms_of(P.render(pr))
        # the catalogue's helper declarations are ordinary accepted forms placed after the header
        hdr = [i for i, f in enumerate(forms) if f.startswith("pr") and "(tg: String" in f]
        start = (hdr[-1] + 1) if hdr else 3
        forms = forms[:start] + PRE + forms[start:]
        start += len(PRE)
        bad_at = []
        for n_, (pos, kind) in enumerate(bads):
            bad_at.append((start + pos % (len(forms) - start + 1) if len(forms) > start else start, BAD[kind](n_)))
        bad_at = [(min(i, len(forms) - 1), t) for i, t in bad_at]
        h = hashlib.sha256(repr((forms, bad_at)).encode()).hexdigest()[:14]
        f, nt = check(tc, forms, bad_at, ev, h)
        ev.case(h, nt, sample={"forms_tail": forms[-5:], "erroneous": [t for _, t in bad_at]} if nt else None, classes=["bad_forms_%d" % len(bad_at)])
        if f is not None:
            f2, _ = check(tc, forms, bad_at, Ev(), h + "r")
            if f2 is None:
                ev.inconclusive += 1
                return None
        return f
    f = hyp_run(ID, strat, evaluate, derive_seed(seed, "c13", idx), n, ev)
    return result(ev, [f] if f else [])


def run(ctx):
    n = ctx.n(30, 500)
    ctx.pmap(_worker, [(ctx.tc, ctx.seed, i, n) for i in range(16)])


def replay(ctx, case):
    f, _ = check(ctx.tc, case["forms"], [tuple(b) for b in case["bad_at"]], Ev(), "replay")
    if f is not None:
        f.replay = case
    return f
