"""C03 Interpreter and native executable agree: generated programs x optimisation level, interpreter (from .as and from .ao) vs C executable."""
import os

from .. import aldor
from .. import progcheck as PC
from .. import run as R
from ..check import Fail, result, derive_seed, hyp_run
from ..evidence import Ev
from ..gen import prog as P
from hypothesis import strategies as st

ID = "C03"
LEVEL = "exploration"
LEVELS = ["-Q0", "-Q1", "-Q2", "-Q3", "-Q5", "-Q9"]
RULE = ("case = (generated program incl. the abnormal endings: uncaught exception, failed assertion, never, error; optimisation level in "
        "{0,1,2,3,5,9}); oracle: standard output with tool-emitted text removed (message blocks, interpreter post-mortem trace) and exit class "
        "are equal between aldor -Q<n> -Ginterp p.as, aldor -Q<n> -Ginterp p.ao (saved unit) and the gcc-linked executable from aldor -Q<n> -Fc "
        "-Fmain; the 'Unhandled Exception' text on stderr is compared too. Non-trivial = output has >= 3 distinct lines and the program calls into "
        "the library; abnormal endings are a tracked class. distinct = (program hash, level).")
ASSUMPTIONS = ["exit status compared as a class (interpreter exits 1, executables 2 on the same uncaught exception)",
               "(program, -Q9) pairs with a recursive function are excluded (known finding C02-K8: compilation does not terminate)"]


def norm_out(o):
    """the program's own standard output: generated programs print nothing but '@ ' lines; everything else on the interpreter's stdout is
    the compiler's (warnings with source excerpts, continuation lines, the post-mortem trace)"""
    return [l for l in o.text.split("\n") if l.startswith("@ ")]


def exc_lines(o):
    return sorted(l for l in o.res.err.decode("latin-1").split("\n") if l.startswith("Unhandled Exception"))


def check(tc, src, level, ev, h, nt_hint=True):
    with R.WorkDir("c03-" + h) as wd:
        PC.write_prog(wd, src)
        oi = PC.run_interp(tc, wd, "p.as", [level, "-Fao"])
        if oi.kind != "ran":
            ev.classes["interp_" + oi.kind] += 1
            if oi.kind in ("crash", "hang"):
                what = "interpreter route: %s at %s" % (oi.brief()[:300], level)
                return Fail({"kind": oi.kind, "route": "interp", "level": level, "site": oi.site, "what": what}, {"src": src, "level": level})
            return None     # rejected programs: verdict belongs to C01/C06
        oc = PC.run_c(tc, wd, "p.as", [level])
        fails = []
        if oc.kind != "ran":
            what = "C route fails where the interpreter runs (%s): %s" % (level, oc.brief()[:300])
            return Fail({"kind": oc.kind, "route": "c", "level": level, "site": oc.site, "what": what}, {"src": src, "level": level})
        oa = None
        if os.path.exists(os.path.join(wd, "p.ao")):
            oa = PC.run_interp(tc, wd, "p.ao", [level, "-laldor"])
        key = "%s|%s" % (h, level)
        lines = norm_out(oi)
        nt = len(set(lines)) >= 3
        ev.case(key, nt, sample={"source": src[-600:], "level": level, "stdout": lines[:8], "exit": oi.cls} if nt else None,
                classes=["level_" + level, "cls_" + oi.cls, "ao_" + (oa.kind if oa else "none")])
        if norm_out(oc) != lines or oc.cls != oi.cls:
            i, a, b = PC.first_diff(lines, norm_out(oc))
            what = "%s: interpreter vs executable: exit class %s vs %s; first difference at line %d: interp %r, exe %r" % (level, oi.cls, oc.cls, i, a, b)
            return Fail({"kind": "mismatch", "pair": "interp-vs-c", "level": level, "what": what}, {"src": src, "level": level})
        if exc_lines(oc) != exc_lines(oi):
            what = "%s: 'Unhandled Exception' text differs: interp %r exe %r" % (level, exc_lines(oi), exc_lines(oc))
            return Fail({"kind": "mismatch", "pair": "stderr", "level": level, "what": what}, {"src": src, "level": level})
        if oa is not None:
            if oa.kind != "ran" or norm_out(oa) != lines or oa.cls != oi.cls:
                what = "%s: interpreting the saved .ao differs from interpreting the source: %s" % (level, oa.brief()[:200])
                return Fail({"kind": "mismatch", "pair": "ao-vs-source", "level": level, "what": what}, {"src": src, "level": level})
    return None


def _worker(args):
    tc, seed, idx, n, nlev = args
    ev = Ev()
    strat = st.tuples(P.programs(P.Profile(abnormal=True)), st.lists(st.sampled_from(LEVELS), min_size=nlev, max_size=nlev, unique=True))

    def evaluate(case, ev):
        pr, levels = case
        try:
            P.evaluate(pr)      # programs whose result the language does not fix (machine-integer overflow, step budget) are not compared
        except P.OutOfModel:
            ev.classes["out_of_model"] += 1
            return None
        src = P.render(pr)
        h = P.phash(pr)
        for lv in levels:
            if lv == "-Q9" and P.has_recursion(pr):
                ev.excluded_known["C02-K8-q9-recursion-diverges"] += 1
                continue
            f = check(tc, src, lv, ev, h)
            if f is not None:
                if check(tc, src, lv, Ev(), h) is None:
                    ev.inconclusive += 1
                    continue
                return f
        return None
    f = hyp_run(ID, strat, evaluate, derive_seed(seed, "c03", idx), n, ev)
    return result(ev, [f] if f else [])


def run(ctx):
    n = ctx.n(16, 150)
    ctx.pmap(_worker, [(ctx.tc, ctx.seed, i, n, 3 if ctx.quick else 6) for i in range(16)])


def replay(ctx, case):
    import hashlib
    h = hashlib.sha256(case["src"].encode()).hexdigest()[:12]
    f = check(ctx.tc, case["src"], case["level"], Ev(), "r" + h)
    if f is not None:
        f.replay = case
    return f
