"""C16 Generated C is valid under every C-generation option."""
import glob, hashlib, os, re, shutil

from .. import aldor, findings
from .. import progcheck as PC
from .. import run as R
from ..check import Fail, result, derive_seed, hyp_run
from ..evidence import Ev
from ..gen import prog as P
from hypothesis import strategies as st

ID = "C16"
LEVEL = "exploration"
RULE = ("case = (generated program whose user functions are renamed to 40-90 character identifiers sharing a prefix of drawn length, option "
        "tuple from {-Cstandard,-Cold} x {default, -Cidhash} x -Cidlen in {default,31,32,40,64,0} x -Csmax in {0,1,5,50} x {-Clines,-Cno-lines}). "
        "Oracle: aldor -Fc -Fmain exits 0; every emitted .c compiles with gcc against the shipped foam_c.h; the objects link against the shipped "
        "libaldor.a / libfoam.a; the executable prints the same '@ ' lines with the same exit class as the default-option build (identifier-length "
        "settings other than the default are link-checked only while known finding C16-K6 is listed: the prebuilt libraries were generated with "
        "the default limit). Two further families: (a) the program's functions compiled as a separate library unit and linked with the client unit under the same "
        "options, prefix length >= 58, output compared with the reference evaluator's lines; (b) for one program per worker the statement limit at "
        "which splitting stops is found by bisection on the number of emitted C files and -Csmax is swept over 12 values at and just below it, with "
        "-Cstandard and -Cold. Non-trivial = options differ from the default and (smax in {1,5} implies >= 2 C files were emitted); distinct = "
        "(program, option tuple).")
ASSUMPTIONS = ["limits below the default identifier length are not generated (the property excludes them)"]
K6_KNOWN = any(f["id"] == "C16-K6-idlen-vs-prebuilt-libs" for f in findings.known(ID))


def long_names(src, plen, seed):
    prefix = ("sharedPrefixOfManyCharactersForTheIdentifierLengthLimitOfGeneratedCNames" * 2)[:plen]
    def rn(m):
        return "%s%s%sTail" % (prefix, m.group(1), m.group(2))
    return re.sub(r"\b(fn|gn|mk|ov)(\d+)\b", rn, src)


def build(tc, wd, copts, level="-Q1"):
    r = aldor.compile_(tc, wd, ["p.as"], [level, "-Fc", "-Fmain"] + list(copts), cpu=120)
    o = PC.classify_compile(tc, r)
    if o is not None:
        return o, None, 0
    cs = sorted(glob.glob(os.path.join(wd, "*.c")))
    exe = os.path.join(wd, "p.exe")
    g = R.run(["gcc", "-w", "-O0", "-I" + tc.srcdir, "-I" + wd, "-o", exe] + cs + tc.linklibs("aldor"), cwd=wd, cpu=300, as_limit=0)
    if not g.ok:
        return PC.Outcome("ccfail", text=(g.text() + g.err.decode("latin-1"))[-700:], res=g), None, len(cs)
    return None, exe, len(cs)


def check(tc, src, copts, ev, h, run_it=True):
    base = os.path.join(R.WORK, "c16-%d-%s" % (os.getpid(), h))
    shutil.rmtree(base, ignore_errors=True)
    try:
        d0, d1 = os.path.join(base, "def"), os.path.join(base, "opt")
        os.makedirs(d0); os.makedirs(d1)
        PC.write_prog(d0, src); PC.write_prog(d1, src)
        o0, exe0, n0 = build(tc, d0, [])
        if o0 is not None:
            ev.classes["default_build_" + o0.kind] += 1
            return None, False
        e0 = aldor.run_exe(exe0, d0)
        o1, exe1, n1 = build(tc, d1, copts)
        case = {"src": src, "copts": list(copts)}
        nt = bool(copts)
        sm = [c for c in copts if c.startswith("-Csmax=")]
        if sm and sm[0] in ("-Csmax=1", "-Csmax=5") and n1 < 3:
            nt = False
        ev.classes["files_%d" % min(n1, 9)] += 1
        if o1 is not None:
            what = "options %s: %s (default options build and run)" % (" ".join(copts), o1.brief()[:400])
            return Fail({"kind": o1.kind, "site": o1.site, "copts": " ".join(copts), "what": what}, case), nt
        if not run_it:
            return None, nt
        e1 = aldor.run_exe(exe1, d1)
        l0, l1 = aldor.marker_lines(e0), aldor.marker_lines(e1)
        c0 = "signal" if e0.sig else ("ok" if e0.rc == 0 else "fail")
        c1 = "signal%s" % e1.sig if e1.sig else ("ok" if e1.rc == 0 else "fail")
        if l0 != l1 or c0 != c1:
            i, a, b = PC.first_diff(l0, l1)
            what = "options %s: executable behaves differently: exit %s vs default %s; line %d: default %r, options %r" % (" ".join(copts), c1, c0, i, a, b)
            return Fail({"kind": "behaviour-differs", "copts": " ".join(copts), "exit": c1, "what": what}, case), nt
        return None, nt
    finally:
        shutil.rmtree(base, ignore_errors=True)


def build_split(tc, wd, lib, cl, copts, level="-Q1"):
    """library unit + client unit, both compiled to C under the same options, linked into one executable"""
    R.write(os.path.join(wd, "lb.as"), lib)
    R.write(os.path.join(wd, "cl.as"), cl)
    r = aldor.compile_(tc, wd, ["lb.as"], [level, "-Fao", "-Fc"] + list(copts), cpu=120)
    o = PC.classify_compile(tc, r)
    if o is not None:
        return o, None
    r = aldor.compile_(tc, wd, ["cl.as"], [level, "-Fc", "-Fmain"] + list(copts), cpu=120)
    o = PC.classify_compile(tc, r)
    if o is not None:
        return o, None
    cs = sorted(glob.glob(os.path.join(wd, "*.c")))
    exe = os.path.join(wd, "p.exe")
    g = R.run(["gcc", "-w", "-O0", "-I" + tc.srcdir, "-I" + wd, "-o", exe] + cs + tc.linklibs("aldor"), cwd=wd, cpu=300, as_limit=0)
    if not g.ok:
        return PC.Outcome("ccfail", text=(g.text() + g.err.decode("latin-1"))[-700:], res=g), None
    return None, exe


def check_split(tc, pr, plen, copts, ev, h):
    """two units: the long-named functions are exported globals of the library unit, bound by their C names at link / load time.
    Oracle: the reference evaluator's lines (a name clash between two globals is wrong under every option set alike)."""
    try:
        want, wcls, _ = P.evaluate(pr)
    except P.OutOfModel:
        return None, False
    lib, cl = P.render_split(pr)
    lib, cl = long_names(lib, plen, 0), long_names(cl, plen, 0)
    base = os.path.join(R.WORK, "c16s-%d-%s" % (os.getpid(), h))
    shutil.rmtree(base, ignore_errors=True)
    os.makedirs(base)
    try:
        case = {"split": True, "lib": lib, "client": cl, "copts": list(copts), "want": want, "wcls": wcls}
        o, exe = build_split(tc, base, lib, cl, copts)
        nfun = len(set(re.findall(r"\b\w+(?:fn|ov|mk|gn)\d+Tail\b", cl)))
        nt = nfun >= 2
        if o is not None:
            if o.kind in ("rejected",) and not copts:
                ev.classes["split_unit_rejected"] += 1     # e.g. a macro-only dependency the library unit cannot satisfy
                return None, False
            ev.classes["split_" + o.kind] += 1
            if o.kind == "rejected":
                return None, False
            return Fail({"kind": "split-" + o.kind, "site": o.site, "copts": " ".join(copts), "what": "two-unit build under options [%s]: %s" % (" ".join(copts), o.brief()[:400])}, case), nt
        e = aldor.run_exe(exe, base)
        got = aldor.marker_lines(e)
        cls = "signal%s" % e.sig if e.sig else ("ok" if e.rc == 0 else "fail")
        if got != want or cls != wcls:
            i, a, b = PC.first_diff(want, got)
            return Fail({"kind": "split-behaviour-differs", "copts": " ".join(copts), "exit": cls,
                         "what": "two-unit executable under options [%s]: exit %s (expected %s); line %d: expected %r, got %r" % (" ".join(copts), cls, wcls, i, a, b)}, case), nt
        return None, nt
    finally:
        shutil.rmtree(base, ignore_errors=True)


def nfiles(tc, src, smax, tag):
    with R.WorkDir("c16n-" + tag) as wd:
        PC.write_prog(wd, src)
        r = aldor.compile_(tc, wd, ["p.as"], ["-Q1", "-Fc", "-Fmain", "-Csmax=%d" % smax], cpu=120)
        if PC.classify_compile(tc, r) is not None:
            return None
        return len(glob.glob(os.path.join(wd, "*.c")))


def smax_window(tc, src, tag):
    """the statement limits around the one at which the generator stops splitting this program (found by bisection on the number of C files)"""
    lo, hi = 1, 20000
    n_hi = nfiles(tc, src, hi, tag)
    n_lo = nfiles(tc, src, lo, tag)
    if n_hi is None or n_lo is None or n_lo <= n_hi:
        return []
    while hi - lo > 1:
        mid = (lo + hi) // 2
        n = nfiles(tc, src, mid, tag)
        if n is None:
            return []
        if n > n_hi:
            lo = mid
        else:
            hi = mid
    # hi = smallest limit without splitting; the interesting limits lie at and just below it
    return sorted(set(max(1, hi - k) for k in (0, 1, 2, 3, 4, 6, 8, 11, 15, 20, 30)) | {hi + 1})


def _worker(args):
    tc, seed, idx, n = args
    ev = Ev()
    strat = st.tuples(P.programs(P.Profile(size=9, abnormal=True)), st.sampled_from([[], ["-Cstandard"], ["-Cold"]]), st.sampled_from([[], ["-Cidhash"]]),
                      st.sampled_from([None, None, 31, 32, 40, 64, 0]), st.sampled_from([None, 0, 1, 5, 50]), st.sampled_from([[], ["-Clines"], ["-Cno-lines"]]), st.integers(8, 70))

    def evaluate(case, ev):
        pr, std, idh, idlen, smax, lines, plen = case
        src = long_names(P.render(pr), plen, 0)
        copts = list(std) + list(idh) + (["-Cidlen=%d" % idlen] if idlen is not None else []) + (["-Csmax=%d" % smax] if smax is not None else []) + list(lines)
        if plen % 2 == 0 and idlen is None and not P.decls_of(pr).get("tmpls") and len(P.decls_of(pr)["funcs"]) >= 2:
            # a third of the cases: the functions live in a separately compiled unit (their C names are link-time globals)
            h = hashlib.sha256(repr((src, copts, "split")).encode()).hexdigest()[:14]
            f, nt = check_split(tc, pr, max(plen, 58), copts, ev, h)
            ev.case(h, nt, sample={"two_units": True, "options": copts, "prefix_len": max(plen, 58)} if nt and len(ev.samples) < 2 else None, classes=["two_units"] + ["opt_" + c.split("=")[0] for c in copts])
            if f is not None:
                f2, _ = check_split(tc, pr, max(plen, 58), copts, Ev(), h + "r")
                if f2 is None:
                    ev.inconclusive += 1
                    return None
            return f
        run_it = True
        if idlen is not None and K6_KNOWN:
            ev.excluded_known["C16-K6-idlen-vs-prebuilt-libs"] += 1
            run_it = False
        h = hashlib.sha256(repr((src, copts)).encode()).hexdigest()[:14]
        f, nt = check(tc, src, copts, ev, h, run_it)
        ev.case(h, nt, sample={"options": copts, "prefix_len": plen, "source_tail": src[-300:]} if nt else None,
                classes=["opt_" + c.split("=")[0] for c in copts] + (["run"] if run_it else ["link_only"]))
        if f is not None:
            f2, _ = check(tc, src, copts, Ev(), h + "r", run_it)
            if f2 is None:
                ev.inconclusive += 1
                return None
        return f
    f = hyp_run(ID, strat, evaluate, derive_seed(seed, "c16", idx), n, ev)
    return result(ev, [f] if f else [])


def _smax_worker(args):
    tc, seed, idx, nprog = args
    from hypothesis import given, settings, HealthCheck, Phase, seed as hseed
    ev = Ev()
    progs = []

    @hseed(derive_seed(seed, "c16smax", idx))
    @settings(max_examples=nprog, database=None, deadline=None, suppress_health_check=list(HealthCheck), phases=[Phase.generate])
    @given(P.programs(P.Profile(size=9, abnormal=False)))
    def t(pr):
        progs.append(pr)
    t()
    fails = []
    for pr in progs:
        src = P.render(pr)
        tag = hashlib.sha256(src.encode()).hexdigest()[:12]
        for smax in smax_window(tc, src, tag):
            for std in ([], ["-Cold"]):
                copts = std + ["-Csmax=%d" % smax]
                h = hashlib.sha256(repr((src, copts)).encode()).hexdigest()[:14]
                f, nt = check(tc, src, copts, ev, h)
                ev.case(h, True, sample={"options": copts, "smax_window": True} if len(ev.samples) < 1 else None, classes=["smax_window"])
                if f is not None:
                    f2, _ = check(tc, src, copts, Ev(), h + "r")
                    if f2 is not None:
                        fails.append(f)
                        return result(ev, fails)
                    ev.inconclusive += 1
    return result(ev, fails)


def run(ctx):
    n = ctx.n(14, 150)
    ctx.pmap(_smax_worker, [(ctx.tc, ctx.seed, i, 1 if ctx.quick else 6) for i in range(16)])
    if ctx.fails:
        return
    ctx.pmap(_worker, [(ctx.tc, ctx.seed, i, n) for i in range(16)])


def replay(ctx, case):
    if case.get("split"):
        base = os.path.join(R.WORK, "c16sr-%d" % os.getpid())
        shutil.rmtree(base, ignore_errors=True)
        os.makedirs(base)
        try:
            o, exe = build_split(ctx.tc, base, case["lib"], case["client"], case["copts"])
            if o is not None:
                return Fail({"kind": "split-" + o.kind, "site": o.site, "copts": " ".join(case["copts"]), "what": "two-unit build: %s" % o.brief()[:300]}, case)
            e = aldor.run_exe(exe, base)
            got = aldor.marker_lines(e)
            cls = "signal%s" % e.sig if e.sig else ("ok" if e.rc == 0 else "fail")
            if got != case["want"] or cls != case["wcls"]:
                return Fail({"kind": "split-behaviour-differs", "copts": " ".join(case["copts"]), "exit": cls, "what": "two-unit executable: exit %s, output differs from the expected lines" % cls}, case)
            return None
        finally:
            shutil.rmtree(base, ignore_errors=True)
    f, _ = check(ctx.tc, case["src"], case["copts"], Ev(), "replay", case.get("run", True))
    if f is not None:
        f.replay = case
    return f
