"""C14 Parsing does not depend on layout: two renderings of one abstract program must give byte-identical -Fap output."""
import hashlib, os

from .. import aldor
from .. import run as R
from ..check import Fail, result, derive_seed, hyp_run
from ..evidence import Ev
from ..gen import prog as P
from ..gen import layout as LY
from hypothesis import strategies as st

ID = "C14"
LEVEL = "exploration"
RULE = ("case = (abstract program, two layout styles): the canonical brace-and-semicolon rendering versus (a) a braced rendering with drawn "
        "indentation (0-8 blanks per level, tabs, or random), widened / tab blanks, blanks after '(' / before ')' / around ',', blank lines, "
        "'--' comment lines and trailing comments at any line boundary, lines broken at blanks; or (b) the '#pile' rendering (indent width 1-8 "
        "or tabs, no braces, no semicolons, comment and blank lines, '_'-escaped line breaks). Oracle: aldor -Fap on both gives byte-identical "
        ".ap files (the .ap carries no positions). Non-trivial = the second rendering is piled and the tree has a block nested >= 2 deep, or "
        "it is braced with >= 2 perturbation kinds; distinct = (tree hash, style).")
ASSUMPTIONS = ["'++' / '+++' documentation comments attach to the tree and are therefore not inserted; blanks are only inserted where a blank, "
               "a parenthesis or a comma already separates tokens"]


def ap_of(tc, text, tag):
    with R.WorkDir("c14-" + tag) as wd:
        R.write(os.path.join(wd, "p.as"), text)
        r = aldor.compile_(tc, wd, ["p.as"], ["-Fap"], cpu=60)
        p = os.path.join(wd, "p.ap")
        ap = open(p, "rb").read() if os.path.exists(p) else None
    return r, ap


def check(tc, lines, mode, style, rseed, ev, h):
    import random
    canon = "\n".join("\t" * i + t for i, t in lines) + "\n"
    rnd = random.Random(rseed)
    other = LY.piled(lines, rnd, style) if mode == "pile" else LY.braced(lines, rnd, style)
    r0, ap0 = ap_of(tc, canon, h + "a")
    if ap0 is None or aldor.has_error(r0.text()):
        ev.classes["canonical_rejected"] += 1
        return None
    r1, ap1 = ap_of(tc, other, h + "b")
    case = {"canonical": canon, "other": other, "mode": mode}
    if aldor.has_fault(r1):
        return Fail({"kind": "crash", "mode": mode, "site": aldor.fault_site(tc, r1.text()), "what": "%s rendering makes the compiler fault" % mode}, case)
    if ap1 is None or aldor.has_error(r1.text()):
        return Fail({"kind": "rejected", "mode": mode, "what": "%s rendering of an accepted program is rejected: %s" % (mode, r1.text()[:300].replace("\n", " | "))}, case)
    if ap0 != ap1:
        a, b = ap0.decode("latin-1").split("\n"), ap1.decode("latin-1").split("\n")
        i = 0
        while i < min(len(a), len(b)) and a[i] == b[i]:
            i += 1
        return Fail({"kind": "tree-differs", "mode": mode, "what": "%s rendering parses differently: .ap line %d: canonical %r, other %r" % (mode, i, a[i:i + 1], b[i:i + 1])}, case)
    return None


def _worker(args):
    tc, seed, idx, n = args
    ev = Ev()
    styles = st.fixed_dictionaries({"indent": st.sampled_from([1, 2, 3, 4, 5, 6, 7, 8, "tab"]), "spacing": st.integers(0, 2), "blank": st.sampled_from([0, 0.1, 0.4]),
                                    "comment": st.sampled_from([0, 0.1, 0.4]), "trailing": st.sampled_from([0, 0.15]), "breaks": st.sampled_from([0, 0.1, 0.3])})
    strat = st.tuples(P.programs(P.Profile(size=10, templates=False)), st.sampled_from(["pile", "pile", "brace"]), styles, st.integers(0, 2 ** 30), st.booleans())

    def evaluate(case, ev):
        pr, mode, style, rseed, rnd_indent = case
        if mode == "brace" and rnd_indent:
            style = dict(style, indent="random")
        lines = P.Renderer(pr).top()
        h = hashlib.sha256(repr((lines, mode, sorted(style.items()), rseed)).encode()).hexdigest()[:14]
        f = check(tc, lines, mode, style, rseed, ev, h)
        depth = max(i for i, t in lines)
        kinds = sum(1 for k in ("spacing", "blank", "comment", "trailing", "breaks") if style[k])
        nt = (mode == "pile" and depth >= 2) or (mode == "brace" and kinds >= 2)
        ev.case(h, nt, sample={"mode": mode, "style": {k: str(v) for k, v in style.items()}} if nt else None, classes=["mode_" + mode, "indent_%s" % style["indent"]])
        if f is not None and check(tc, lines, mode, style, rseed, Ev(), h + "r") is None:
            ev.inconclusive += 1
            return None
        return f
    f = hyp_run(ID, strat, evaluate, derive_seed(seed, "c14", idx), n, ev, shrink_cap=60)
    return result(ev, [f] if f else [])


def run(ctx):
    n = ctx.n(500, 5000)
    ctx.pmap(_worker, [(ctx.tc, ctx.seed, i, n) for i in range(16)])


def replay(ctx, case):
    r0, ap0 = ap_of(ctx.tc, case["canonical"], "ra")
    r1, ap1 = ap_of(ctx.tc, case["other"], "rb")
    if ap0 is None:
        return None
    if aldor.has_fault(r1):
        return Fail({"kind": "crash", "mode": case["mode"], "site": aldor.fault_site(ctx.tc, r1.text()), "what": "rendering makes the compiler fault"}, case)
    if ap1 is None or aldor.has_error(r1.text()):
        return Fail({"kind": "rejected", "mode": case["mode"], "what": "rendering rejected: %s" % r1.text()[:200]}, case)
    if ap0 != ap1:
        return Fail({"kind": "tree-differs", "mode": case["mode"], "what": "renderings parse differently"}, case)
    return None
