"""Generate /verif/MANIFEST.json from the table below (keeps it schema-valid at all times)."""
import json, os, sys

VERIF = os.path.dirname(os.path.dirname(os.path.abspath(__file__)))

CHECKS = {
 "C11": dict(level="exploration", engine="libfuzzer+product",
   technique="coverage-guided fuzzing (libFuzzer, structure-aware decoding, ASan) + exhaustive boundary-product enumeration, differential oracle = GMP",
   text="Every big-integer entry point of bigint.c/foam_i.c is compared with GMP on the full product of values within +-2 of 2^k (k<=200 quick, 520 thorough; both signs; all pairs; every binary op) and on coverage-guided structured operands up to 4000 bits. Exploration: absence of a defect outside the explored operands is not shown.",
   note="Trusted: GMP, the harness decoding, malloc-backed storage (STO_USE_MALLOC). bintMod's sign convention is taken from fiBIntRem.", design="4 C11"),
 "C01": dict(level="exploration", engine="hypothesis-subprocess",
   technique="property-based testing (Hypothesis-generated typed programs) against an independent reference evaluator, on two execution routes",
   text="Programs drawn from a typed abstract grammar (integers of both widths with 12 library operations, booleans, strings, lists, arrays, records, unions, closures, generators, loops with break/iterate, early exit, exceptions, overloading, macros, parametrised domains with category defaults, and five stateful templates: outer-variable update, deep lexical nesting, fluids, accumulator closures, try/finally; half of the programs written without redundant parentheses) are run by the interpreter and as C executables and compared line by line with a Python reference evaluator of the same tree.",
   note="Trusted: the reference evaluator (vt/gen/prog.py) for the stated sub-language; constructs that hit known compiler defects are excluded by construction and listed in known_findings.json.", design="4 C01"),
 "C02": dict(level="exploration", engine="hypothesis-subprocess",
   technique="differential property-based testing: generated programs x generated optimisation configurations, oracle = same program at -Q0 on the same route",
   text="Each generated program runs under -Q0 and under sampled configurations (all levels, each switch alone, each switch removed from -Q9, random subsets, random inline limits) on the interpreter and, for a sample and all cc* switches, as C executable; output lines and exit class must be equal.",
   note="Purely differential; excluded: -Q9 with recursion (K8) and -Qkillp (K20), both listed known findings.", design="4 C02"),
 "C03": dict(level="exploration", engine="hypothesis-subprocess",
   technique="differential property-based testing: interpreter (source and saved .ao) versus gcc-linked C executable over generated programs x levels",
   text="Generated programs, including ones ending by uncaught exception, failed assertion, never or error, run at -Q{0,1,2,3,5,9} under -Ginterp (from .as and from the saved .ao) and as executable; normalised stdout, exit class and the Unhandled Exception text must agree.",
   note="Only tool-emitted text is normalised away.", design="4 C03"),
 "C04": dict(level="exploration", engine="hypothesis-subprocess",
   technique="three-way differential testing (constant folder / interpreter / C runtime) of every pure builtin over the boundary product of its argument types, plus an exact Python model for the Bool/Char/SInt/BInt operations",
   text="For each of 133 builtin operations one generated source imports it from Builtin and prints its exact result on every boundary tuple of its domain; the outputs of -Q0 -Ginterp, the -Q0 executable and -Q2 -Qinline-all (folded) must agree line by line and with the mathematical model. One small function per tuple keeps the inliner's budget from starving the folder; the evidence counts, per operation, the applications left unfolded in the -Q2 FOAM (67 operations fully folded, 20 partly; for the rest - big-integer and double-float operands, operations the folder does not implement - the comparison is interpreter vs runtime vs model).",
   note="Quick tier: seeded sample of <= 160 tuples per operation; thorough: up to 3000 (the full product for most operations).", design="4 C04"),
 "C05": dict(level="exploration", engine="hypothesis-subprocess",
   technique="round-trip and differential property-based testing: generated programs with extreme constants through .ao / .fm / .al and library/client splits, byte comparison after the two stated normalisations",
   text="C, FOAM text and Lisp generated from the saved .ao and .fm must equal those from the source (input-file line deleted, wide-integer re-expressions compared by value); .fm re-save is byte-identical; the saved .ao behaves like the source; a library/client split (also through an archive, member first/middle/last) behaves like the single unit on interpreter and executable.",
   note="K5 (omitted casts on the .fm route) is a listed known finding matched exactly.", design="4 C05"),
 "C06": dict(level="exploration", engine="hypothesis-subprocess",
   technique="property-based testing with a catalogue of single-fault mutants: each generated well-typed program must be accepted, each guaranteed-illegal mutant (planted at enumerated sites) must be rejected with a positioned error and no output file",
   text="Well-typed generated programs are compiled with -Fao -Fc -Ffm -Flsp and must be accepted with all outputs; thirteen catalogue faults, illegal by construction (nominal domain no operation accepts, fresh identifiers, conditionally implemented required export, the same export imported from two instances of a parametrised domain / two parameters of one category / two scopes), are planted in the main block and in function bodies and must be rejected with exit != 0, a positioned (Error) line and no output files; the four well-typed twins of the last four entries must be accepted.",
   note="No particular message text is demanded.", design="4 C06"),
 "C07": dict(level="exploration", engine="hypothesis-subprocess",
   technique="mutation-based fuzzing driven by Hypothesis recipes (token/bracket/pile/escape/directive mutations of corpus and generated sources, random bytes) with a validity-predicate oracle",
   text="Every generated input is compiled with -Fap -Fao; the compiler must exit without signal or internal fault, within the CPU limit, and exit non-zero exactly when it printed an error; a second family plants one of 19 certainly invalid constructs (unterminated #if chains, stray #endif/#else, missing include, #error, open string / brace / parenthesis, circular macros) into generated valid programs, which must then be rejected with a diagnostic and no output. Fault sites already known are listed as known findings by call site.",
   note="Faults are recognised by the signal handler's marker (hook 2) or death by signal, never by text that an echoed source line could forge.", design="4 C07"),
 "C08": dict(level="exploration", engine="hypothesis-subprocess",
   technique="metamorphic property-based testing: pairs of compilations differing in one environmental variation (ASLR, collector on/off/forced schedule via hook, working directory, environment, batch), byte comparison of all outputs",
   text="Generated program sets are compiled twice with one controlled difference; every emitted file and the diagnostic stream must be byte-identical.",
   note="Forced collection uses hook 1 (ALDOR_VERIF_GC). Batch-vs-separate is a listed known finding.", design="4 C08"),
 "C09": dict(level="exploration", engine="hypothesis-subprocess",
   technique="differential property-based testing over collection schedules: forced collection every k-th allocation (hook, freed storage poisoned) versus the collector never running, on both execution routes",
   text="Allocation-heavy generated programs run as executables under k in {1..987} (collect at every allocation included) and under the interpreter with k in [331,1000]; output and exit class must equal the run without collection; over a million forced collections per quick run. A scale family keeps one chain of up to 300000 cells live across collections (three cell shapes) with closed-form expected output, and every collecting run has an open-file limit of 40.",
   note="Schedules are 'every k-th allocation from offset j'; arbitrary subsets are sampled by that family.", design="4 C09"),
 "C10": dict(level="exploration", engine="rapidcheck-stateful",
   technique="stateful model-based property testing (rapidcheck histories, fork-isolated, reference model of live blocks) + exhaustive enumeration of short histories",
   text="Random alloc/free/resize/recode/link/root/gc histories (<=200 steps quick, up to 1e5 thorough), fragmentation histories (33-120 distinct multi-page free sizes at once, three free / re-request orders) and all histories of length <=5 (thorough <=6) over a 10-letter alphabet run on the real allocator in both build flavours; after every step alignment, size, disjointness, byte patterns, code, survival of reachable blocks and stoAudit are checked.",
   note="Trusted: the C++ model; survival asserted only for blocks reachable from static roots the marker scans.", design="4 C10"),
 "C12": dict(level="exploration", engine="hypothesis-subprocess",
   technique="differential property-based testing: generated programs (Java-supported subset) x levels, javac + java against the shipped jars versus the interpreter",
   text="Generated programs are compiled with -Fjava -Jmain at -Q1/-Q3/-Q9, compiled by javac against foamj.jar:foam.jar:aldor.jar and run; '@' lines and exit class must equal the interpreter's.",
   note="try/catch is outside the supported subset (genjava: not implemented); three genjava defects are listed known findings and excluded by construction.", design="4 C12"),
 "C13": dict(level="exploration", engine="hypothesis-subprocess",
   technique="differential property-based testing with error interleavings: form sequences fed to aldor -Gloop (erroneous forms from the ill-typed catalogue inserted at drawn positions) versus aldor -Ginterp on the clean file",
   text="Generated sequences of definitions and output statements are fed to the interactive loop one per line, with rejected forms interleaved; the marker lines must equal those of batch interpretation of the clean sequence and every erroneous form must be reported.",
   note="Two loop-only runtime faults are listed known findings matched by fault site.", design="4 C13"),
 "C14": dict(level="exploration", engine="hypothesis-subprocess",
   technique="metamorphic property-based testing: two layout renderings of one generated abstract program (braced with perturbed white space / comments / line breaks / indentation, or #pile) must give byte-identical -Fap parse trees",
   text="Every generated program is rendered canonically and in a second, layout-only different way (including the complete rewrite into indentation-structured #pile form with indent width 1-8 or tabs and escaped line breaks); aldor -Fap must write identical files.",
   note="Only '--' comments are inserted ('++' documentation comments are part of the tree).", design="4 C14"),
 "C15": dict(level="exploration", engine="hypothesis-subprocess",
   technique="metamorphic + absolute-position property-based testing of diagnostics: planted faults x inserted code-free lines (k up to 70000) x include / #line placement x column padding",
   text="For a program with one planted fault, inserting k code-free lines must move exactly the diagnostics at or after the insertion by k lines and change nothing else; undefined-name and wrong-argument faults must be reported at the planted token's line and column; moved into an included file or behind #line the message must name that file and line.",
   note="Columns >= 16384 are a listed known finding (14-bit column field).", design="4 C15"),
 "C16": dict(level="exploration", engine="hypothesis-subprocess",
   technique="differential property-based testing over C-generation option tuples: generated programs with long shared-prefix identifiers, gcc compile + link against the shipped runtime, run versus the default-option build",
   text="Generated programs (functions renamed to 40-90 character names sharing a drawn prefix) are compiled with tuples of -Cstandard/-Cold, -Cidhash, -Cidlen, -Csmax (file splitting) and -Clines/-Cno-lines; every emitted C file must compile, the objects must link against the shipped libraries, and the executable must behave like the default build. Two further families: the functions compiled as a separate library unit and linked with the client under the same options (exported C names; output compared with the reference evaluator), and a per-program sweep of -Csmax over 12 values at and just below the limit at which splitting stops (found by bisection on the number of emitted C files).",
   note="Non-default identifier lengths are link-checked only (known finding K6: prebuilt libraries use the default limit).", design="4 C16"),
 "C17": dict(level="fault_enumeration", engine="fault-enumeration",
   technique="exhaustive enumeration of truncation points plus seeded single-byte substitutions of valid .ao/.fm/.al files, validity-predicate oracle over six consumers",
   text="Every truncation length of the object file (each point at which a writer could have died) and substitutions at every header/section-table offset and seeded body offsets are fed to six consumers (one reads the unit as the last of two archive members); each must reproduce the intact outputs byte for byte or refuse with a diagnostic and non-zero status, never fault, hang or silently differ.",
   note="Substitutions inside section contents are a listed known finding (no checksum in the format); truncations and header damage are strict.", design="4 C17"),
 "C18": dict(level="fault_enumeration", engine="fault-enumeration",
   technique="fault injection enumerated over output kinds x fault points: /dev/full, directory/missing-directory targets, the n-th write(2) failing (strace -e inject) for every n, RLIMIT_FSIZE sweep; validity-predicate oracle",
   text="For each of the nine output kinds every point of the output's write history is failed in turn (ENOSPC, EIO, all writes from the n-th on) besides path faults and file-size limits; exit 0 must imply a complete, byte-identical output and a delivered fault must give an error message and non-zero exit.",
   note="Only calls on the chosen output path are failed (strace -P).", design="4 C18"),
 "C19": dict(level="exploration", engine="exhaustive-loop+hypothesis",
   technique="exhaustive enumeration of all 2^32 single-precision patterns and boundary/random double patterns through round-trip identities; generated-literal differential through the compiler",
   text="All 2^32 single patterns and 270k+ boundary double patterns (plus seeded random ones) survive the portable encoding and dissemble/assemble bit-exactly; compiler-level layers compare folded, interpreted, compiled and reloaded constants.",
   note="Trusted: IEEE-754 host, Python float() as correctly rounded reference for double literals.", design="4 C19"),
 "C20": dict(level="exploration", engine="rapidcheck-stateful",
   technique="model-based property testing (rapidcheck op histories vs std::map/multimap/vector<bool>/truth tables, ASan) + exhaustive DNF formula enumeration",
   text="Histories of operations run in lock step against textbook models for table, btree, priq, bitv/intset, buffer and dnf, plus every formula over <=4 (thorough <=8) atoms to depth 2 against truth tables. Two genuine dnf defects are listed as known findings and excluded by construction (call-site hook / syntactic class).",
   note="Trusted: the C++ models and rapidcheck; documented preconditions listed in the evidence assumptions.", design="4 C20"),
}

NOT_APPLICABLE = {}

ALL = ["C%02d" % i for i in range(1, 21)]


def main():
    props = {}
    for line in open(os.path.join(VERIF, "properties.jsonl")):
        p = json.loads(line)
        props[p["id"]] = p
    checks = []
    for pid in ALL:
        if pid not in CHECKS:
            continue
        c = CHECKS[pid]
        checks.append({
            "property_id": pid,
            "quick_cmd": "bin/check %s quick" % pid,
            "thorough_cmd": "bin/check %s thorough" % pid,
            "evidence_file": "/verif/evidence/%s.json" % pid,
            "replay_cmd_template": "bin/check %s --replay {path}" % pid,
            "engine": c["engine"],
            "level_claimed": {"category": c["level"], "text": c["text"], "design_ref": "DESIGN.md section " + c["design"]},
            "level_note": c["note"],
            "technique": c["technique"],
        })
    na = [{"property_id": pid, "reason": NOT_APPLICABLE.get(pid, "check not yet built in this revision (planned, see DESIGN.md section 4); not claimed until it runs green on the unchanged tree")}
          for pid in ALL if pid not in CHECKS]
    hooks = os.popen("git -C /repo log --format=%H --grep='^verif hook'").read().split()
    doc = {
        "version": 1,
        "setup_cmd": "bin/setup",
        "hooks": {"guard": "ALDOR_VERIF",
                  "enable": "checks build a private copy of /repo's working tree under /verif/.cache/tc-<content hash> with ./configure CFLAGS='-O0 -g -Wno-error -DALDOR_VERIF' (vt/build.py); /repo's own build never defines the guard",
                  "baseline_off_cmd": "make -k -j16 -C /repo/aldor check",
                  "source_commits": hooks, "add_only": True},
        "engines": [
            {"name": "libfuzzer+product", "path": "harness/bigint_fuzz.cc", "serves_properties": ["C11"], "kind_free_text": "libFuzzer target with GMP oracle; deterministic boundary product driver"},
            {"name": "rapidcheck-stateful", "path": "harness/containers_rc.cc", "serves_properties": ["C10", "C20"], "kind_free_text": "rapidcheck-generated operation histories against reference models"},
            {"name": "exhaustive-loop+hypothesis", "path": "harness/xfloat_check.cc", "serves_properties": ["C19"], "kind_free_text": "exhaustive bit-pattern loops; Hypothesis-generated literals through the compiler"},
            {"name": "fault-enumeration", "path": "vt/props/c17.py", "serves_properties": ["C17", "C18"], "kind_free_text": "enumerated damage / write-fault points applied to real compiler runs"},
            {"name": "hypothesis-subprocess", "path": "vt/", "serves_properties": ["C01", "C02", "C03", "C04", "C05", "C06", "C07", "C08", "C09", "C12", "C13", "C14", "C15", "C16"], "kind_free_text": "Hypothesis-generated programs/inputs driving the compiler under test as a subprocess"},
        ],
        "checks": checks,
        "not_applicable": na,
        "notes": "Single entry point bin/check <ID> <quick|thorough>; VERIF_SEED selects the seed; known findings in known_findings.json; see DESIGN.md.",
    }
    try:
        import jsonschema
        jsonschema.validate(doc, json.load(open("/root/.vp/MANIFEST.schema.json")))
    except ImportError:
        pass
    with open(os.path.join(VERIF, "MANIFEST.json"), "w") as f:
        json.dump(doc, f, indent=1)
        f.write("\n")
    print("MANIFEST.json written: %d checks, %d not_applicable" % (len(checks), len(na)))


if __name__ == "__main__":
    main()
