"""Private, hook-enabled toolchain built from /repo's *working tree*, cached by content hash."""
import json, fcntl, hashlib, os, shutil, subprocess, sys, time

VERIF = os.path.dirname(os.path.dirname(os.path.abspath(__file__)))
REPO = os.environ.get("VERIF_REPO", "/repo")
CACHE = os.path.join(VERIF, ".cache")
GUARD = "ALDOR_VERIF"
SRC_EXT = {".c", ".h", ".as", ".java", ".z", ".y", ".am", ".ac", ".m4", ".mk", ".msg", ".conf",
           ".sh", ".awk", ".sed", ".txt", ".typ", ".in", ".al", ".lsp", ".ax", ".sty", ".tex", ".xml", ".cat"}
KEEP = max(3, int(os.environ.get("VERIF_TC_KEEP", "3")))   # cached toolchains kept (a mutant campaign beside a sweep raises it)


def _list_files():
    out = subprocess.run(["git", "-C", REPO, "ls-files", "-c", "aldor"], capture_output=True, text=True, check=True).stdout.split("\n")
    tracked = [f for f in out if f]
    out = subprocess.run(["git", "-C", REPO, "ls-files", "-o", "--exclude-standard", "aldor"], capture_output=True, text=True, check=True).stdout.split("\n")
    # untracked: only files that look like sources (a mutant may add a file); never build products
    extra = []
    for f in out:
        if not f:
            continue
        ext = os.path.splitext(f)[1]
        if ext in SRC_EXT and not f.endswith("opsys_port.h"):
            extra.append(f)
    files = sorted(set(tracked + extra))
    return [f for f in files if os.path.isfile(os.path.join(REPO, f)) or os.path.islink(os.path.join(REPO, f))]


def tree_hash(files=None):
    files = files or _list_files()
    h = hashlib.sha256()
    for f in files:
        p = os.path.join(REPO, f)
        h.update(f.encode() + b"\0")
        try:
            if os.path.islink(p):
                h.update(b"L" + os.readlink(p).encode())
            else:
                with open(p, "rb") as fh:
                    h.update(hashlib.sha256(fh.read()).digest())
                h.update(b"x" if os.access(p, os.X_OK) else b"-")
        except OSError:
            h.update(b"?")
    return h.hexdigest()[:16]


class TC:
    """Paths into one built toolchain."""

    def __init__(self, top):
        self.top = top
        self.R = os.path.join(top, "src", "aldor")          # == /repo/aldor
        self.srcdir = os.path.join(self.R, "aldor", "src")
        self.aldor = os.path.join(self.srcdir, "aldor")
        self.conf = os.path.join(self.srcdir, "aldor.conf")
        self.N = "-Nfile=" + self.conf
        self.hash = os.path.basename(top)[3:]
        self.bin = os.path.join(top, "bin")  # module harness binaries
        # partial: the compiler was built but FAULTED while compiling the repository's own library sources (dict: step, tail);
        # gc_note: the library build only went through with collection disabled (dict: step, tail)
        self.partial = _load_json(os.path.join(top, "PARTIAL"))
        self.gc_note = _load_json(os.path.join(top, "GCNOTE"))

    def libflags(self, lib):
        R = self.R
        if lib == "aldor":
            return ["-I%s/lib/aldor/include" % R, "-Y%s/lib/aldor/src" % R, "-Y%s/aldor/lib/libfoam/al" % R]
        if lib == "axllib":
            return ["-I%s/lib/axllib/include" % R, "-Y%s/lib/axllib/src" % R, "-Y%s/aldor/lib/libfoam/al" % R]
        if lib == "foamlib":
            return ["-I%s/aldor/lib/libfoamlib/al" % R, "-Y%s/aldor/lib/libfoamlib/al" % R, "-Y%s/aldor/lib/libfoam/al" % R]
        if lib == "none":
            return []
        raise ValueError(lib)

    def linklibs(self, lib):
        R = self.R
        if lib == "aldor":
            return ["%s/lib/aldor/src/libaldor.a" % R, "%s/aldor/lib/libfoam/libfoam.a" % R, "-lm"]
        if lib == "axllib":
            return ["%s/lib/axllib/src/libaxllib.a" % R, "%s/aldor/lib/libfoam/libfoam.a" % R,
                    "%s/aldor/lib/libfoamlib/libfoamlib.a" % R, "-lm"]
        if lib == "foamlib":
            return ["%s/aldor/lib/libfoamlib/libfoamlib.a" % R, "%s/aldor/lib/libfoam/libfoam.a" % R, "-lm"]
        raise ValueError(lib)

    def javacp(self):
        R = self.R
        return ":".join(["%s/aldor/lib/java/src/foamj.jar" % R, "%s/aldor/lib/libfoam/al/foam.jar" % R,
                         "%s/lib/aldor/src/aldor.jar" % R])


def _load_json(path):
    try:
        with open(path) as fh:
            return json.load(fh)
    except (OSError, ValueError):
        return None


def _run(cmd, cwd, log, env=None):
    with open(log, "ab") as lf:
        lf.write(("\n$ %s (cwd=%s)%s\n" % (cmd, cwd, " [ALDOR_VERIF_GC=never]" if env else "")).encode())
        lf.flush()
        r = subprocess.run(cmd, cwd=cwd, shell=True, stdout=lf, stderr=subprocess.STDOUT, env=env)
    return r.returncode


FAULT_MARKS = ("Program fault", "Compiler bug", "VERIF-FAULT-SITE", "Storage allocation error")


def _compiler_fault_tail(log):
    """the last 40 lines of the build log if they show the freshly built compiler faulting, else None"""
    tail = subprocess.run(["tail", "-40", log], capture_output=True, text=True, errors="replace").stdout
    return tail if any(m in tail for m in FAULT_MARKS) else None


def _gc_cache(keep_name):
    try:
        ents = [e for e in os.listdir(CACHE) if e.startswith("tc-")]
    except FileNotFoundError:
        return
    ents = [(os.path.getmtime(os.path.join(CACHE, e)), e) for e in ents if e != keep_name]
    ents.sort(reverse=True)
    for _, e in ents[KEEP - 1:]:
        shutil.rmtree(os.path.join(CACHE, e), ignore_errors=True)


def ensure(verbose=True):
    """Return a TC for the current working tree of /repo, building it if needed. Exit 2 on build failure."""
    os.makedirs(CACHE, exist_ok=True)
    files = _list_files()
    h = tree_hash(files)
    name = "tc-" + h
    top = os.path.join(CACHE, name)
    ok = os.path.join(top, "OK")
    if os.path.exists(ok) or os.path.exists(os.path.join(top, "PARTIAL")):
        os.utime(top)
        return TC(top)
    lock = open(os.path.join(CACHE, "build.lock"), "w")
    fcntl.flock(lock, fcntl.LOCK_EX)
    try:
        if os.path.exists(ok) or os.path.exists(os.path.join(top, "PARTIAL")):
            return TC(top)
        if verbose:
            print("[build] building toolchain %s from %s working tree (about 80 s)" % (name, REPO), flush=True)
        t0 = time.time()
        shutil.rmtree(top, ignore_errors=True)
        _gc_cache(name)
        os.makedirs(os.path.join(top, "src"))
        p = subprocess.run(["rsync", "-a", "--files-from=-", REPO + "/", os.path.join(top, "src") + "/"],
                           input="\n".join(files), text=True, capture_output=True)
        if p.returncode != 0:
            print("INFRA-ERROR rsync failed: " + p.stderr[-500:])
            sys.exit(2)
        log = os.path.join(top, "build.log")
        R = os.path.join(top, "src", "aldor")
        steps = [
            ("./autogen.sh", R),
            ("./configure CFLAGS='-O0 -g -Wno-error -D%s'" % GUARD, R),
            ("make -j16 -C aldor", R),
            ("make -j16 -C lib/aldor", R),
            ("make -j16 -C lib/axllib", R),
        ]
        gc_env = None
        for cmd, cwd in steps:
            rc = _run(cmd, cwd, log, gc_env)
            if rc != 0 and gc_env is None and os.path.exists(os.path.join(R, "aldor", "src", "aldor")):
                ftail = _compiler_fault_tail(log)
                if ftail is not None:
                    # the compiler built from this tree faults on the repository's own (valid) library sources. Is it the collector?
                    gc_env = dict(os.environ, ALDOR_VERIF_GC="never")
                    rc = _run(cmd, cwd, log, gc_env)
                    if rc == 0:
                        with open(os.path.join(top, "GCNOTE"), "w") as fh:
                            json.dump({"step": cmd, "tail": ftail[-3000:]}, fh)
                    else:
                        with open(os.path.join(top, "PARTIAL"), "w") as fh:
                            json.dump({"step": cmd, "tail": ftail[-3000:]}, fh)
                        if verbose:
                            print("[build] the compiler built from this tree faults in step '%s' (also with collection disabled): partial toolchain" % cmd, flush=True)
                        return TC(top)
            if rc != 0:
                tail = subprocess.run(["tail", "-30", log], capture_output=True, text=True).stdout
                print("INFRA-ERROR toolchain build step failed: %s\n%s" % (cmd, tail))
                sys.exit(2)
        # sanity
        for f in ["aldor/src/aldor", "lib/aldor/src/libaldor.a", "lib/aldor/src/libaldor.al", "aldor/lib/libfoam/libfoam.a",
                  "lib/axllib/src/libaxllib.a"]:
            if not os.path.exists(os.path.join(R, f)):
                print("INFRA-ERROR toolchain product missing: " + f)
                sys.exit(2)
        open(ok, "w").write("%.1f\n" % (time.time() - t0))
        if verbose:
            print("[build] done in %.0f s" % (time.time() - t0), flush=True)
        return TC(top)
    finally:
        fcntl.flock(lock, fcntl.LOCK_UN)
        lock.close()


if __name__ == "__main__":
    tc = ensure()
    print(tc.top)
