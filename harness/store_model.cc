// C10: model-based test of the storage manager (store.c, B-tree allocator + conservative collector).
// Each history runs in a fork()ed child because the allocator cannot be reset; the op vector is the case.
//   store_model run                      rapidcheck-generated histories (RC_PARAMS)
//   store_model exhaust <len> <shard> <nshards>   all histories of length <= len over a 10-letter alphabet
//   store_model --replay FILE
#include <rapidcheck.h>
#include <map>
#include <set>
#include <sstream>
#include <string>
#include <vector>
#include <algorithm>
#include <cstdio>
#include <cstring>
#include <unistd.h>
#include <sys/wait.h>

extern "C" {
#include "axlgen.h"
#include "store.h"
}
#undef local
#undef bool

struct Op { int k; long a; long b; };
typedef std::vector<Op> Ops;

enum { K_ALLOC = 0, K_FREE, K_RESIZE, K_RECODE, K_WRITE, K_LINK, K_ROOT, K_UNROOT, K_GC, K_CHECKALL, K_N };

static const long SIZES[] = {1, 7, 8, 9, 15, 16, 17, 24, 25, 32, 33, 40, 48, 49, 56, 64, 65, 72, 80, 81, 96, 97, 128, 129, 160, 161, 192, 193,
                             255, 256, 257, 264, 300, 511, 512, 513, 768, 1000, 2040, 4000, 4080, 4088, 4096, 4097, 5000, 8192, 12000,
                             65528, 65536, 65544, 100000, 1 << 20};
static const int NSIZES = sizeof(SIZES) / sizeof(SIZES[0]);
#ifdef FOAM_RTS
static const unsigned PTRFREE_CODE = 9;   // registered below as containing no pointers
#endif
static const unsigned CODES[] = {1, 2, 3, 5, 7, 9, 12, 20};

// static data: scanned by the collector (initialised-data segment)
static void *g_roots[256];
static bool g_exhaust = false;

struct Blk { unsigned long naddr; /* ~address: not a heap pointer, order-reversing */ unsigned long size; unsigned code; unsigned long seed; bool rooted; int rootslot;
             std::map<unsigned long, int> links; /* offset -> target id */ };

static unsigned char pat(unsigned long seed, unsigned long i) { unsigned long x = seed * 0x9E3779B97F4A7C15UL + i * 0xBF58476D1CE4E5B9UL; return (unsigned char)(x >> 29) | 1; }

struct Model {
  std::map<int, Blk> live; int nextid = 1; std::string err; int step = 0; bool automatic = false;
  int free_slot() { for (int i = 0; i < 256; i++) if (!g_roots[i]) return i; return -1; }
  void drop_unreachable() {
    std::set<int> reach; std::vector<int> work; for (auto &kv : live) if (kv.second.rooted) { reach.insert(kv.first); work.push_back(kv.first); }
    while (!work.empty()) { int x = work.back(); work.pop_back(); for (auto &l : live[x].links) if (live.count(l.second) && !reach.count(l.second)) { reach.insert(l.second); work.push_back(l.second); } }
    if (!reach.empty() && reach.size() < live.size()) gc_mixed = true;
    for (auto it = live.begin(); it != live.end();) { if (!reach.count(it->first)) it = live.erase(it); else ++it; }
    purge_links(); }
  // a link whose target left the model is overwritten with pattern bytes again (the owner clears its dangling pointers)
  void purge_links() {
    for (auto &kv : live) for (auto it = kv.second.links.begin(); it != kv.second.links.end();) {
      if (!live.count(it->second)) { char *p = addr(kv.second); for (unsigned long i = it->first; i < it->first + 8 && i < kv.second.size; i++) p[i] = (char)pat(kv.second.seed, i); it = kv.second.links.erase(it); } else ++it; } }
  std::map<unsigned long, int> byaddr;   // ~addr -> id  (reverse order of addresses)
  bool free_then_alloc_same = false, gc_mixed = false, adj_free = false, did_gc_reclaim_cycle = false;
  std::set<unsigned long> freed_classes; unsigned long last_free_end = 0, last_free_start = 0;

  char *addr(const Blk &b) { return (char *)~b.naddr; }
  bool fail(const std::string &m) { std::ostringstream o; o << "step " << step << ": " << m; err = o.str(); return false; }

  void fill(Blk &b) { char *p = addr(b); for (unsigned long i = 0; i < b.size; i++) p[i] = (char)pat(b.seed, i);
    for (auto it = b.links.begin(); it != b.links.end();) { if (it->first + 8 > b.size || !live.count(it->second)) it = b.links.erase(it); else { *(void **)(p + it->first) = addr(live[it->second]); ++it; } } }
  bool verify(int id) { Blk &b = live[id]; char *p = addr(b);
    if (!stoIsPointer(p)) return fail("live block " + std::to_string(id) + " is no longer recognised by stoIsPointer");
    if (stoSize(p) < b.size) return fail("stoSize of block " + std::to_string(id) + " shrank below the requested size");
    if (stoCode(p) != b.code) { std::ostringstream o; o << "block " << id << " has code " << stoCode(p) << ", model " << b.code; return fail(o.str()); }
    for (unsigned long i = 0; i < b.size; i++) {
      auto lk = b.links.upper_bound(i); bool inlink = false;
      if (lk != b.links.begin()) { --lk; if (i >= lk->first && i < lk->first + 8) inlink = true; }
      if (inlink) continue;
      if ((unsigned char)p[i] != pat(b.seed, i)) { std::ostringstream o; o << "contents of live block " << id << " (size " << b.size << ") changed at offset " << i; return fail(o.str()); }
    }
    for (auto &l : b.links) if (live.count(l.second) && *(void **)(p + l.first) != (void *)addr(live[l.second])) return fail("a stored pointer inside block " + std::to_string(id) + " changed");
    return true; }
  bool verify_all() { for (auto &kv : live) if (!verify(kv.first)) return false; return true; }

  bool check_new(char *p, unsigned long size, int self) {
    if (!p) return fail("allocation returned NULL");
    if (((unsigned long)p) % sizeof(MostAlignedType) != 0) return fail("returned pointer is not aligned for MostAlignedType");
    if (stoSize(p) < size) { std::ostringstream o; o << "stoSize " << stoSize(p) << " < requested " << size; return fail(o.str()); }
    unsigned long lo = (unsigned long)p, hi = lo + size;
    // neighbours in address order (byaddr is keyed by ~addr, i.e. reverse order)
    for (auto &kv : live) { if (kv.first == self) continue; unsigned long a = (unsigned long)addr(kv.second), e = a + kv.second.size;
      if (lo < e && a < hi) { std::ostringstream o; o << "new block [" << size << " bytes] overlaps live block " << kv.first << " (size " << kv.second.size << ")"; return fail(o.str()); } }
    return true; }

  int pick(long a) { if (live.empty()) return 0; auto it = live.begin(); std::advance(it, labs(a) % live.size()); return it->first; }

  bool apply(const Op &op) {
    step++;
    // 100 = allocate exactly op.a bytes, 101 = free the block with id op.a (fragmentation histories address blocks by id)
    switch (op.k == 100 ? (int)K_ALLOC : op.k == 101 ? (int)K_FREE : op.k % K_N) {
    case K_ALLOC: { unsigned long size = op.k == 100 ? (unsigned long)op.a : (unsigned long)SIZES[labs(op.a) % NSIZES]; unsigned code = CODES[labs(op.b) % 8];
      int slot = automatic ? free_slot() : -1; if (automatic && slot < 0) break;
      char *p = (char *)stoAlloc(code, size);
      if (automatic) g_roots[slot] = p;     // collections may start inside any allocation: the block is rooted at once
      if (!check_new(p, size, 0)) return false;
      if (stoCode(p) != code) return fail("stoCode of a new block differs from the code requested");
      unsigned long tsz = stoSize(p); if (freed_classes.count(tsz)) free_then_alloc_same = true;
      Blk b; b.naddr = ~(unsigned long)p; b.size = size; b.code = code; b.seed = nextid * 31 + step; b.rooted = automatic; b.rootslot = slot;
      int id = nextid++; live[id] = b; fill(live[id]); p = 0; break; }
    case K_FREE: { int id = op.k == 101 ? (live.count((int)op.a) ? (int)op.a : 0) : pick(op.a); if (!id) break; Blk &b = live[id]; if (!verify(id)) return false;
      unsigned long tsz = stoSize(addr(b)); freed_classes.insert(tsz);
      unsigned long s = (unsigned long)addr(b); if (tsz > 256 && (s == last_free_end + 16 || s + tsz + 16 == last_free_start || s == last_free_end || s + tsz == last_free_start)) adj_free = true;
      last_free_start = s; last_free_end = s + tsz;
      if (b.rooted) g_roots[b.rootslot] = 0;
      stoFree(addr(b)); live.erase(id); purge_links(); if (automatic) drop_unreachable(); break; }
    case K_RESIZE: { int id = pick(op.a); if (!id) break; Blk &b = live[id]; if (!verify(id)) return false;
      if (!b.links.empty()) { b.links.clear(); fill(b); if (automatic) { drop_unreachable(); if (!live.count(id)) break; } }   // the prefix is checked byte for byte under one pattern
      unsigned long nsz = SIZES[labs(op.b) % NSIZES]; unsigned long keep = nsz < b.size ? nsz : b.size;
      char *np = (char *)stoResize(addr(b), nsz);
      if (b.rooted) g_roots[b.rootslot] = np;
      b.naddr = ~(unsigned long)np; unsigned long osz = b.size; b.size = keep;
      for (auto it = b.links.begin(); it != b.links.end();) { if (it->first + 8 > keep) it = b.links.erase(it); else ++it; }   // verify the common prefix under the old pattern
      if (!check_new(np, nsz, id)) return false;
      if (!verify(id)) { err = "after resize " + std::to_string(osz) + "->" + std::to_string(nsz) + ": " + err; return false; }
      b.size = nsz; b.seed += 7; fill(b);
      // pointers to this block held by other blocks are the owner's business: refresh them
      for (auto &kv : live) for (auto &l : kv.second.links) if (l.second == id) *(void **)(addr(kv.second) + l.first) = np;
      np = 0; break; }
    case K_RECODE: { int id = pick(op.a); if (!id) break; Blk &b = live[id]; unsigned code = CODES[labs(op.b) % 8];
#ifdef FOAM_RTS
      if (code == PTRFREE_CODE && !b.links.empty()) break;
#endif
      char *r = (char *)stoRecode(addr(b), code); if (r != addr(b)) return fail("stoRecode moved the block"); b.code = code; if (!verify(id)) return false; break; }
    case K_WRITE: { int id = pick(op.a); if (!id) break; Blk &b = live[id]; b.seed = op.b * 2 + 1; fill(b); break; }
    case K_LINK: { int from = pick(op.a), to = pick(op.b); if (!from || !to || from == to) break; Blk &b = live[from]; if (b.size < 8) break;
#ifdef FOAM_RTS
      if (b.code == PTRFREE_CODE) break;
#endif
      unsigned long off = ((labs(op.a / 7) % (b.size / 8)) * 8);
      // keep links non-overlapping (all are 8-aligned, so equal offsets only)
      b.links[off] = to; *(void **)(addr(b) + off) = addr(live[to]); if (automatic) drop_unreachable(); break; }
    case K_ROOT: { int id = pick(op.a); if (!id) break; Blk &b = live[id]; if (b.rooted) break; int slot = -1; for (int i = 0; i < 256; i++) if (!g_roots[i]) { slot = i; break; }
      if (slot < 0) break; b.rooted = true; b.rootslot = slot; g_roots[slot] = addr(b); break; }
    case K_UNROOT: { int id = pick(op.a); if (!id) break; Blk &b = live[id]; if (!b.rooted) break; g_roots[b.rootslot] = 0; b.rooted = false; b.rootslot = -1;
      if (automatic) drop_unreachable();   // it may be reclaimed by the next allocation
      break; }
    case K_GC: { if (!verify_all()) return false;
      // unreachable blocks may or may not survive (conservative): they leave the model and are never touched again
      drop_unreachable();
      stoGc();
      if (!verify_all()) { err = "after collection: " + err; return false; }
      break; }
    case K_CHECKALL: if (!verify_all()) return false; break;
    }
    stoAudit();   // aborts (bug()/assert) on inconsistency; the parent sees the child's death
    if (step % 64 == 0 && !verify_all()) return false;
    return true; }
};

static int run_history(long cfg, const Ops &ops, std::string *err, bool *nontriv) {
#ifdef FOAM_RTS
  { StoInfoObj info; info.code = PTRFREE_CODE; info.hasPtrs = 0; stoRegister(&info); }
#endif
  Model m; m.automatic = cfg & 1;
  // explicit-collection mode: blocks hidden from the collector stay valid until the history itself collects
  if (!m.automatic) stoCtl(StoCtl_GcLevel, StoCtl_GcLevel_Demand);
  for (auto &op : ops) if (!m.apply(op)) { *err = m.err; return 1; }
  if (!m.verify_all()) { *err = "final: " + m.err; return 1; }
  *nontriv = m.free_then_alloc_same && (m.gc_mixed || g_exhaust);
  return 0;
}

// run in a child; returns 0 ok, 1 model failure, 2 crash; msg via pipe; nontrivial flag via exit code bit
static int run_forked(long cfg, const Ops &ops, std::string *msg, bool *nontriv) {
  int fd[2]; if (pipe(fd)) return 2;
  fflush(stdout); fflush(stderr);
  pid_t pid = fork();
  if (pid == 0) {
    close(fd[0]); dup2(fd[1], 2);   // stderr of the allocator (error handler text) goes to the parent too
    std::string err; bool nt = false; int r = run_history(cfg, ops, &err, &nt);
    if (r) { std::string s = "MODEL-FAIL " + err + "\n"; if (write(fd[1], s.data(), s.size()) < 0) {} _exit(10); }
    _exit(nt ? 21 : 20);
  }
  close(fd[1]); char buf[4096]; std::string out; ssize_t n; while ((n = read(fd[0], buf, sizeof buf)) > 0) out.append(buf, n); close(fd[0]);
  int st = 0; waitpid(pid, &st, 0);
  if (WIFEXITED(st) && (WEXITSTATUS(st) == 20 || WEXITSTATUS(st) == 21)) { *nontriv = WEXITSTATUS(st) == 21; return 0; }
  if (WIFEXITED(st) && WEXITSTATUS(st) == 10) { *msg = out; return 1; }
  std::ostringstream o; if (WIFSIGNALED(st)) o << "child killed by signal " << WTERMSIG(st); else o << "child exited with status " << WEXITSTATUS(st);
  o << ": " << out.substr(0, 600); *msg = o.str(); return 2;
}

static std::string show_ops(long cfg, const Ops &ops) { std::ostringstream o; o << "cfg " << cfg << "\n"; for (auto &p : ops) o << p.k << " " << p.a << " " << p.b << "\n"; return o.str(); }
static unsigned long S_frag = 0; static unsigned long S_after_fail = 0, S_cases = 0, S_nontrivial = 0, S_steps = 0; static std::set<size_t> S_distinct;
static void write_file(const char *envname, const std::string &txt) { const char *p = getenv(envname); if (!p) return; FILE *f = fopen(p, "w"); if (!f) return; fwrite(txt.data(), 1, txt.size(), f); fclose(f); }
static void dump_stats() { std::ostringstream o; o << "frag_histories=" << S_frag << "\ncases=" << S_cases << "\nnontrivial=" << S_distinct.size() << "\nsteps=" << S_steps << "\n"; write_file("VERIF_STATS_FILE", o.str()); }

// Fragmentation family: n large blocks of n distinct multi-page-piece sizes, each followed by a live spacer so that the holes cannot merge;
// the large blocks are freed in one of three orders (n distinct free-piece sizes at once: the allocator's size index grows to several
// B-tree nodes), then requested again exactly in one of three orders, then everything is freed. Audited after every step.
static std::vector<int> frag_order(int n, int kind, unsigned long seed) {
  std::vector<int> v(n); for (int i = 0; i < n; i++) v[i] = i;
  if (kind == 1) std::reverse(v.begin(), v.end());
  if (kind == 2) for (int i = n - 1; i > 0; i--) { seed = seed * 6364136223846793005UL + 1442695040888963407UL; std::swap(v[i], v[(seed >> 33) % (i + 1)]); }
  return v; }
static Ops frag_history(int n, int step256, int ofree, int otake, int ofinal, unsigned long seed) {
  Ops ops; auto sz = [&](int i) { return 300L + 256L * step256 * i; };
  for (int i = 0; i < n; i++) { ops.push_back({100, sz(i), i}); ops.push_back({100, 300, 0}); }          // ids 2i+1 (large), 2i+2 (spacer)
  for (int i : frag_order(n, ofree, seed)) ops.push_back({101, 2 * i + 1, 0});
  int next = 2 * n + 1; std::vector<int> again;
  for (int i : frag_order(n, otake, seed + 1)) { ops.push_back({100, sz(i), i}); again.push_back(next++); }
  std::vector<int> all; for (int i = 0; i < n; i++) all.push_back(2 * i + 2); for (int id : again) all.push_back(id);
  for (int j : frag_order((int)all.size(), ofinal, seed + 2)) ops.push_back({101, all[j], 0});
  return ops; }

int main(int argc, char **argv) {
  if (argc >= 3 && !strcmp(argv[1], "--replay")) {
    FILE *f = fopen(argv[2], "r"); if (!f) { perror(argv[2]); return 2; } Ops ops; Op o; long cfg = 0; if (fscanf(f, " cfg %ld", &cfg) != 1) cfg = 0; while (fscanf(f, "%d %ld %ld", &o.k, &o.a, &o.b) == 3) ops.push_back(o); fclose(f);
    std::string msg; bool nt; int r = run_forked(cfg, ops, &msg, &nt);
    if (r) { printf("C10-FAIL %s\n", msg.c_str()); return 1; } printf("REPLAY-PASS\n"); return 0;
  }
  if (argc >= 5 && !strcmp(argv[1], "exhaust")) {
    // alphabet: A8 A24 A256 A257 A5000 F-oldest F-newest R-grow R-shrink G
    static const Op alpha[10] = {{K_ALLOC, 2, 0}, {K_ALLOC, 7, 1}, {K_ALLOC, 29, 2}, {K_ALLOC, 30, 3}, {K_ALLOC, 44, 0}, {K_FREE, 0, 0}, {K_FREE, -1, 0}, {K_RESIZE, 0, 30}, {K_RESIZE, 0, 3}, {K_GC, 0, 0}};
    g_exhaust = true;
    int len = atoi(argv[2]), shard = atoi(argv[3]), nsh = atoi(argv[4]); unsigned long total = 1; for (int i = 0; i < len; i++) total *= 10;
    // all histories of exactly `len` letters (shorter ones are their prefixes, audited step by step); run in batches per child
    for (unsigned long h = shard; h < total; h += nsh) {
      Ops ops; unsigned long x = h; for (int i = 0; i < len; i++) { Op o = alpha[x % 10]; if (o.a == -1) o.a = 1000003; ops.push_back(o); x /= 10; }
      // newest/oldest: pick() indexes the live map by insertion id order
      for (long cfg = 0; cfg < 2; cfg++) {
      std::string msg; bool nt; int r = run_forked(cfg, ops, &msg, &nt); S_cases++; S_steps += len; if (nt) S_distinct.insert(h * 2 + cfg);
      if (r) { printf("C10-FAIL %s\nC10-CASE-BEGIN\n%sC10-CASE-END\n", msg.c_str(), show_ops(cfg, ops).c_str()); dump_stats(); return 1; } }
    }
    dump_stats(); printf("C10-DONE exhaust len=%d cases=%lu nontrivial=%zu\n", len, S_cases, S_distinct.size()); return 0;
  }
  int maxlen = getenv("VERIF_MAXLEN") ? atoi(getenv("VERIF_MAXLEN")) : 200;
  static std::string last_fail, last_msg;
  auto genOp = rc::gen::map(rc::gen::tuple(rc::gen::inRange(0, 30), rc::gen::inRange<long>(0, 5000), rc::gen::inRange<long>(0, 5000)), [](std::tuple<int, long, long> t) {
    static const int sel[30] = {K_ALLOC, K_ALLOC, K_ALLOC, K_ALLOC, K_ALLOC, K_ALLOC, K_ALLOC, K_ALLOC, K_FREE, K_FREE, K_FREE, K_FREE, K_FREE, K_RESIZE, K_RESIZE, K_RESIZE,
                                K_RECODE, K_WRITE, K_LINK, K_LINK, K_LINK, K_ROOT, K_ROOT, K_ROOT, K_UNROOT, K_GC, K_GC, K_CHECKALL, K_ALLOC, K_FREE};
    Op o; o.k = sel[std::get<0>(t)]; o.a = std::get<1>(t); o.b = std::get<2>(t); return o; });
  bool ok = rc::check("C10 store", [&]() {
    long cfg = *rc::gen::resize(50, rc::gen::inRange<long>(0, 2));
    Ops ops;
    if (*rc::gen::resize(50, rc::gen::inRange(0, 5)) == 0) {
      // one case in five: a fragmentation history (explicit frees only; roots are limited to 256 slots in automatic mode)
      int n = *rc::gen::resize(100, rc::gen::inRange(33, 121)); if (cfg & 1) n = n > 100 ? 100 : n;
      int st = *rc::gen::resize(50, rc::gen::inRange(1, 3));
      int o1 = *rc::gen::resize(50, rc::gen::inRange(0, 3)), o2 = *rc::gen::resize(50, rc::gen::inRange(0, 3)), o3 = *rc::gen::resize(50, rc::gen::inRange(0, 3));
      unsigned long sd = *rc::gen::resize(100, rc::gen::inRange<unsigned long>(0, 100000));
      ops = frag_history(n, st, o1, o2, o3, sd); S_frag++;
    } else {
      int len = *rc::gen::resize(100, rc::gen::inRange(1, maxlen));
      ops = *rc::gen::container<Ops>(len, genOp);
    }
    std::string txt = show_ops(cfg, ops); write_file("VERIF_CASE_FILE", txt);
    static int fails_seen = 0; int cap = getenv("VERIF_SHRINK_CAP") ? atoi(getenv("VERIF_SHRINK_CAP")) : 400;
    if (fails_seen > 0 && (int)S_after_fail++ > cap * 20) return;       // shrink budget exhausted: keep the best case found so far
    std::string msg; bool nt = false; int r = run_forked(cfg, ops, &msg, &nt);
    if (r) fails_seen++;
    S_cases++; S_steps += ops.size(); if (nt) S_distinct.insert(std::hash<std::string>()(txt));
    if (r) { last_fail = txt; last_msg = msg; RC_FAIL(msg); }
  });
  dump_stats();
  if (!ok) { printf("C10-FAIL %s\nC10-CASE-BEGIN\n%sC10-CASE-END\n", last_msg.c_str(), last_fail.c_str()); return 1; }
  printf("C10-DONE cases=%lu nontrivial=%zu\n", S_cases, S_distinct.size());
  return 0;
}
