// C19 layer 1: portable float encoding and dissemble/assemble identities on bit patterns.
//   xfloat_check sf <lo> <hi> <step>     all single patterns lo <= b < hi with stride step (hex or decimal)
//   xfloat_check df <seed> <nrandom>     all 2048 exponents x boundary fractions x signs, plus random patterns
//   xfloat_check one sf|df <hexbits>     replay
#include <stdint.h>
#include <initializer_list>
#include <stdio.h>
#include <stdlib.h>
#include <string.h>
extern "C" {
#include "axlgen.h"
#include "xfloat.h"
#include "foam_c.h"
}
#undef local

static unsigned long evals = 0, nontrivial = 0;
static bool sf_is_nan(uint32_t b) { return (b & 0x7f800000u) == 0x7f800000u && (b & 0x7fffffu); }
static bool df_is_nan(uint64_t b) { return (b & 0x7ff0000000000000ULL) == 0x7ff0000000000000ULL && (b & 0xfffffffffffffULL); }

static int fail(const char *kind, const char *which, uint64_t bits, uint64_t got) {
  printf("XFLOAT-FAIL kind=%s which=%s bits=%016llx got=%016llx\n", kind, which, (unsigned long long)bits, (unsigned long long)got);
  return 1;
}

static int check_sf(uint32_t b) {
  float f, g; memcpy(&f, &b, 4); uint32_t r;
  evals++; if (!((b & 0x7f800000u) == 0x3f800000u)) nontrivial++;     // not a normal number in [1,2)
  // (1) portable encoding round trip
  XSFloat x; memset(&x, 0xA5, sizeof x); xsfFrNative(&x, &f); g = 0; xsfToNative(&x, &g); memcpy(&r, &g, 4);
  if (sf_is_nan(b)) { if (!sf_is_nan(r)) return fail("sf", "xsf-nan", b, r); }
  else if (r != b) return fail("sf", "xsf-roundtrip", b, r);
  // (2) dissemble / assemble
  Bool sign = 0, isz = 0; int ex = 0; UByte frac[8] = {0};
  sfDissemble(&f, &sign, &ex, frac, &isz); g = 0; sfAssemble(&g, sign, ex, frac); memcpy(&r, &g, 4);
  if (sf_is_nan(b)) { if (!sf_is_nan(r)) return fail("sf", "dissemble-nan", b, r); }
  else if (r != b) return fail("sf", "dissemble-assemble", b, r);
  if ((bool)sign != (bool)(b >> 31)) return fail("sf", "dissemble-sign", b, sign);
  if ((bool)isz != ((b & 0x7fffffffu) == 0)) return fail("sf", "dissemble-iszero", b, isz);
  // (3) runtime boxing
  FiBool fs = 0; FiSInt fe = 0; FiWord sig = 0;
  fiSFloDissemble(f, &fs, &fe, &sig); g = fiSFloAssemble(fs, fe, sig); memcpy(&r, &g, 4);
  if (sf_is_nan(b)) { if (!sf_is_nan(r)) return fail("sf", "fi-nan", b, r); }
  else if (r != b) return fail("sf", "fi-dissemble-assemble", b, r);
  return 0;
}

static int check_df(uint64_t b) {
  double f, g; memcpy(&f, &b, 8); uint64_t r;
  evals++; if (!((b & 0x7ff0000000000000ULL) == 0x3ff0000000000000ULL)) nontrivial++;
  XDFloat x; memset(&x, 0xA5, sizeof x); xdfFrNative(&x, &f); g = 0; xdfToNative(&x, &g); memcpy(&r, &g, 8);
  if (df_is_nan(b)) { if (!df_is_nan(r)) return fail("df", "xdf-nan", b, r); }
  else if (r != b) return fail("df", "xdf-roundtrip", b, r);
  Bool sign = 0, isz = 0; int ex = 0; UByte frac[16] = {0};
  dfDissemble(&f, &sign, &ex, frac, &isz); g = 0; dfAssemble(&g, sign, ex, frac); memcpy(&r, &g, 8);
  if (df_is_nan(b)) { if (!df_is_nan(r)) return fail("df", "dissemble-nan", b, r); }
  else if (r != b) return fail("df", "dissemble-assemble", b, r);
  if ((bool)sign != (bool)(b >> 63)) return fail("df", "dissemble-sign", b, sign);
  if ((bool)isz != ((b & 0x7fffffffffffffffULL) == 0)) return fail("df", "dissemble-iszero", b, isz);
  FiBool fs = 0; FiSInt fe = 0; FiWord s0 = 0, s1 = 0;
  fiDFloDissemble(f, &fs, &fe, &s0, &s1); g = fiDFloAssemble(fs, fe, s0, s1); memcpy(&r, &g, 8);
  if (df_is_nan(b)) { if (!df_is_nan(r)) return fail("df", "fi-nan", b, r); }
  else if (r != b) return fail("df", "fi-dissemble-assemble", b, r);
  return 0;
}

static uint64_t sm_state;
static uint64_t splitmix() { uint64_t z = (sm_state += 0x9e3779b97f4a7c15ULL); z = (z ^ (z >> 30)) * 0xbf58476d1ce4e5b9ULL; z = (z ^ (z >> 27)) * 0x94d049bb133111ebULL; return z ^ (z >> 31); }

int main(int argc, char **argv) {
  if (argc >= 4 && !strcmp(argv[1], "one")) {
    uint64_t b = strtoull(argv[3], 0, 16);
    int r = !strcmp(argv[2], "sf") ? check_sf((uint32_t)b) : check_df(b);
    if (!r) printf("REPLAY-PASS\n");
    return r;
  }
  if (argc >= 5 && !strcmp(argv[1], "sf")) {
    uint64_t lo = strtoull(argv[2], 0, 0), hi = strtoull(argv[3], 0, 0), step = strtoull(argv[4], 0, 0);
    for (uint64_t b = lo; b < hi; b += step) if (check_sf((uint32_t)b)) return 1;
    // the class boundaries are always included
    static const uint32_t edge[] = {0, 1, 0x7fffff, 0x800000, 0x800001, 0x7f7fffff, 0x7f800000, 0x7f800001, 0x7fc00000, 0x7fffffff, 0x3f800000, 0x3f7fffff, 0x3f800001};
    for (uint32_t e : edge) for (uint32_t s : {0u, 0x80000000u}) if (check_sf(e | s)) return 1;
    printf("XFLOAT-DONE kind=sf evals=%lu nontrivial=%lu\n", evals, nontrivial);
    return 0;
  }
  if (argc >= 4 && !strcmp(argv[1], "df")) {
    sm_state = strtoull(argv[2], 0, 0); unsigned long n = strtoul(argv[3], 0, 0);
    static const uint64_t fr[] = {0, 1, 2, 3, 1ULL << 51, (1ULL << 52) - 1, (1ULL << 52) - 2, 0xAAAAAAAAAAAAAULL, 0x5555555555555ULL, 1ULL << 31, 1ULL << 32, (1ULL << 32) - 1, 0xFFFFF00000000ULL, 0x00000FFFFFFFFULL};
    for (uint64_t e = 0; e < 2048; e++) for (uint64_t s = 0; s < 2; s++) {
      for (uint64_t f : fr) if (check_df((s << 63) | (e << 52) | f)) return 1;
      for (int bit = 0; bit < 52; bit++) if (check_df((s << 63) | (e << 52) | (1ULL << bit))) return 1;
    }
    for (unsigned long i = 0; i < n; i++) { uint64_t b = splitmix(); if (i & 1) b = (b & ~(0x7ffULL << 52)) | ((splitmix() % 3 == 0 ? 0ULL : (splitmix() % 3 == 1 ? 0x7ffULL : 1ULL)) << 52); if (check_df(b)) return 1; }
    printf("XFLOAT-DONE kind=df evals=%lu nontrivial=%lu\n", evals, nontrivial);
    return 0;
  }
  fprintf(stderr, "usage\n"); return 2;
}
