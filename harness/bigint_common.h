// Shared oracle for C11: repository big integers versus GMP.
#pragma once
#include <gmp.h>
#include <stdint.h>
#include <stdio.h>
#include <stdlib.h>
#include <string.h>
#include <string>
#include <vector>

extern "C" {
#include "axlgen.h"
#include "bigint.h"
#include "store.h"
#include "foam_c.h"
}
#undef local
#undef bool

struct Stats {
  unsigned long evals = 0, nontrivial = 0, domain_skipped = 0;
  unsigned long per_op[64] = {0};
};
extern Stats g_stats;
extern std::string g_last_case;

[[noreturn]] static void fail(const char *op, const char *what, const std::string &detail) {
  fprintf(stdout, "BIGINT-FAIL op=%s what=%s\n%s\n", op, what, detail.c_str());
  fflush(stdout);
  FILE *f = fopen(getenv("VERIF_FAIL_FILE") ? getenv("VERIF_FAIL_FILE") : "/dev/null", "w");
  if (f) { fprintf(f, "op=%s\nwhat=%s\n%s\n", op, what, detail.c_str()); fclose(f); }
  extern void dump_stats();
  dump_stats();
  _exit(77);
}

static std::string zs(const mpz_t z) { char *s = mpz_get_str(NULL, 10, z); std::string r(s); free(s); return r; }

// ---- conversion mpz -> BInt through 16-bit places (independent of string conversion)
static BInt to_bint(const mpz_t z) {
  if (mpz_sgn(z) == 0) return bintNew(0);
  size_t n = 0;
  std::vector<unsigned short> d((mpz_sizeinbase(z, 2) + 15) / 16 + 1);
  mpz_export(d.data(), &n, -1, 2, 0, 0, z);
  // bintFrPlacevS may use the caller's array in place when count is odd: give it a private copy
  unsigned short *buf = (unsigned short *)malloc((n + 2) * sizeof(unsigned short) * 2);
  memcpy(buf, d.data(), n * 2);
  BInt b = bintFrPlacevS(mpz_sgn(z) < 0, n, buf);
  free(buf);
  return b;
}

// ---- BInt -> mpz through 16-bit places
static void from_bint(mpz_t z, BInt b) {
  if (bintIsSmall(b)) { mpz_set_si(z, bintSmall(b)); return; }
  int n = 0; U16 *data = 0;
  bintToPlacevS(b, &n, &data);
  mpz_import(z, n, -1, 2, 0, 0, data);
  bintReleasePlacevS(data);
  if (bintIsNeg(b)) mpz_neg(z, z);
}

// canonical-form invariant: a value that fits the immediate range must be immediate after an arithmetic op
static bool fits_immediate(const mpz_t z) {
  mpz_t lim; mpz_init(lim); mpz_ui_pow_ui(lim, 2, 62);
  bool r = mpz_cmpabs(z, lim) < 0; mpz_clear(lim); return r;
}

static BInt gA, gB;
static void expect(const char *op, BInt got, const mpz_t want, const std::string &args, bool canonical = true) {
  mpz_t g; mpz_init(g); from_bint(g, got);
  if (mpz_cmp(g, want) != 0)
    fail(op, "wrong-value", args + "\nexpected=" + zs(want) + "\ngot=" + zs(g));
  // second, independent read-out: decimal string
  char *s = bintToString(got);
  if (zs(want) != s) fail(op, "wrong-string", args + "\nexpected=" + zs(want) + "\ngot-string=" + s);
  stoFree(s);
  if (canonical) {   // the result must compare equal to the same value built independently
    BInt ref = to_bint(want);
    if (!bintEQ(got, ref) || !bintEQ(ref, got) || bintLT(got, ref) || bintGT(got, ref))
      fail(op, "result-not-equal-to-same-value", args + "\nvalue=" + zs(want));
    bintFree(ref);
  }
  mpz_clear(g);
  if (got != gA && got != gB) bintFree(got);
}

enum Op { OP_STR = 0, OP_RADIX, OP_CMP, OP_NEG, OP_PLUS, OP_MINUS, OP_TIMES, OP_DIVIDE, OP_MOD, OP_GCD, OP_SIPOW,
          OP_BIPOW, OP_POWMOD, OP_LENGTH, OP_BIT, OP_SHIFT, OP_SHIFTREM, OP_SMALL, OP_XINT, OP_DIVS, OP_TIMESPLUS, OP_FIQR, OP_NOPS };
static const char *op_names[] = {"str", "radix", "cmp", "neg", "plus", "minus", "times", "divide", "mod", "gcd", "sipow",
                                 "bipow", "powmod", "length", "bit", "shift", "shiftrem", "small", "xint", "divs", "timesplus", "fiqr"};

// returns false if (op, operands) is outside the documented domain
static bool check_op(int op, const mpz_t a, const mpz_t b, const mpz_t c, long n) {
  std::string args = std::string("a=") + zs(a) + "\nb=" + zs(b) + "\nc=" + zs(c) + "\nn=" + std::to_string(n);
  g_last_case = std::string("op=") + op_names[op] + "\n" + args;
  mpz_t w, w2, t; mpz_init(w); mpz_init(w2); mpz_init(t);
  BInt A = to_bint(a), B = to_bint(b);
  gA = A; gB = B;
  bool ok = true;
  // every case re-checks that the operands arrived intact
  expect("operand", A, a, args); expect("operand", B, b, args);
  switch (op) {
  case OP_STR: {
    std::string s = zs(a);
    BInt r = bintFrString((String)s.c_str()); expect("bintFrString", r, a, args);
    String end = 0; std::string s2 = "  " + s + "xyz";
    BInt r2 = bintScanFrString((String)s2.c_str(), &end); expect("bintScanFrString", r2, a, args);
    if (strcmp(end, "xyz") != 0) fail("bintScanFrString", "wrong-end", args);
    int sz = bintStringSize(A); std::vector<char> buf(sz + 8, 'Z');
    bintIntoString(buf.data(), A);
    if (s != buf.data()) fail("bintIntoString", "wrong-string", args + "\ngot=" + buf.data());
    if ((int)strlen(buf.data()) + 1 > sz) fail("bintStringSize", "too-small", args);
    break; }
  case OP_RADIX: {
    int radix = 2 + (int)(labs(n) % 35);
    mpz_abs(t, a); char *d = mpz_get_str(NULL, -radix, t);  // negative base => upper case digits
    std::string s = std::string(mpz_sgn(a) < 0 ? "-" : "") + std::to_string(radix) + "r" + d; free(d);
    String end = 0; BInt r = bintRadixScanFrString((String)s.c_str(), &end);
    expect("bintRadixScanFrString", r, a, args + "\ntext=" + s);
    if (*end) fail("bintRadixScanFrString", "wrong-end", args + "\ntext=" + s);
    break; }
  case OP_CMP: {
    int cm = mpz_cmp(a, b);
    if ((bool)bintEQ(A, B) != (cm == 0)) fail("bintEQ", "wrong", args);
    if ((bool)bintLT(A, B) != (cm < 0)) fail("bintLT", "wrong", args);
    if ((bool)bintGT(A, B) != (cm > 0)) fail("bintGT", "wrong", args);
    if ((bool)fiBIntLE((FiBInt)A, (FiBInt)B) != (cm <= 0)) fail("fiBIntLE", "wrong", args);
    if ((bool)fiBIntNE((FiBInt)A, (FiBInt)B) != (cm != 0)) fail("fiBIntNE", "wrong", args);
    if ((bool)bintIsNeg(A) != (mpz_sgn(a) < 0)) fail("bintIsNeg", "wrong", args);
    if ((bool)bintIsZero(A) != (mpz_sgn(a) == 0)) fail("bintIsZero", "wrong", args);
    if ((bool)bintIsPos(A) != (mpz_sgn(a) > 0)) fail("bintIsPos", "wrong", args);
    BInt Acopy = bintCopy(A); if (!bintEQ(A, Acopy)) fail("bintCopy", "not-equal", args);
    break; }
  case OP_NEG: {
    mpz_neg(w, a); expect("bintNegate", bintNegate(A), w, args);
    mpz_abs(w, a); expect("bintAbs", bintAbs(A), w, args);
    break; }
  case OP_PLUS: mpz_add(w, a, b); expect("bintPlus", bintPlus(A, B), w, args); break;
  case OP_MINUS: mpz_sub(w, a, b); expect("bintMinus", bintMinus(A, B), w, args); break;
  case OP_TIMES: mpz_mul(w, a, b); expect("bintTimes", bintTimes(A, B), w, args); break;
  case OP_TIMESPLUS: mpz_mul(w, a, b); mpz_add(w, w, c); { BInt C = to_bint(c);
    expect("fiBIntTimesPlus", (BInt)fiBIntTimesPlus((FiBInt)A, (FiBInt)B, (FiBInt)C), w, args); } break;
  case OP_DIVIDE: {
    if (mpz_sgn(b) == 0) { ok = false; break; }
    mpz_tdiv_qr(w, w2, a, b);
    BInt r = 0; BInt q = bintDivide(&r, A, B);
    // a = q*b + r through the implementation itself
    BInt qb = bintTimes(q, B); BInt back = bintPlus(qb, r); bintFree(qb); expect("bintDivide.identity", back, a, args);
    expect("bintDivide.quo", q, w, args); expect("bintDivide.rem", r, w2, args);
    break; }
  case OP_FIQR: {
    if (mpz_sgn(b) == 0) { ok = false; break; }
    mpz_tdiv_qr(w, w2, a, b);
    expect("fiBIntQuo", (BInt)fiBIntQuo((FiBInt)A, (FiBInt)B), w, args);
    expect("fiBIntRem", (BInt)fiBIntRem((FiBInt)A, (FiBInt)B), w2, args);
    FiBInt q, r; fiBIntDivide((FiBInt)A, (FiBInt)B, &q, &r);
    expect("fiBIntDivide.quo", (BInt)q, w, args); expect("fiBIntDivide.rem", (BInt)r, w2, args);
    break; }
  case OP_MOD: {
    if (mpz_sgn(b) == 0) { ok = false; break; }
    // repository contract (fiBIntRem is implemented by bintMod): remainder with the sign of the dividend
    mpz_tdiv_r(w, a, b);
    expect("bintMod", bintMod(A, B), w, args);
    expect("fiBIntMod", (BInt)fiBIntMod((FiBInt)A, (FiBInt)B), w, args);
    break; }
  case OP_GCD: {
    mpz_gcd(w, a, b);
    expect("fiBIntGcd", (BInt)fiBIntGcd((FiBInt)A, (FiBInt)B), w, args);

    break; }
  case OP_SIPOW: {
    long e = labs(n) % 70;
    if (mpz_sizeinbase(a, 2) * (unsigned long)e > 40000) e = e % 5;
    mpz_pow_ui(w, a, e);
    expect("fiBIntSIPower", (BInt)fiBIntSIPower((FiBInt)A, (FiSInt)e), w, args + "\ne=" + std::to_string(e));
    break; }
  case OP_BIPOW: {
    mpz_abs(t, b); mpz_fdiv_r_ui(t, t, 70); unsigned long e = mpz_get_ui(t);
    if (mpz_sizeinbase(a, 2) * e > 40000) e = e % 5;
    mpz_pow_ui(w, a, e); mpz_set_ui(t, e); BInt E = to_bint(t);
    expect("fiBIntBIPower", (BInt)fiBIntBIPower((FiBInt)A, (FiBInt)E), w, args + "\ne=" + std::to_string(e));
    break; }
  case OP_POWMOD: {
    // documented domain: exponent >= 0, modulus > 0 (the library calls it with 0 <= a < m, m > 1)
    mpz_abs(t, c); if (mpz_cmp_ui(t, 2) < 0) { ok = false; break; }
    mpz_abs(w2, b); if (mpz_sizeinbase(w2, 2) > 400) mpz_fdiv_r_2exp(w2, w2, 400);
    mpz_t am; mpz_init(am); mpz_fdiv_r(am, a, t);      // 0 <= am < m
    mpz_powm(w, am, w2, t);
    BInt AM = to_bint(am), E = to_bint(w2), M = to_bint(t);
    expect("fiBIntPowerMod", (BInt)fiBIntPowerMod((FiBInt)AM, (FiBInt)E, (FiBInt)M), w,
           args + "\nam=" + zs(am) + "\ne=" + zs(w2) + "\nm=" + zs(t));
    mpz_clear(am);
    break; }
  case OP_LENGTH: {
    unsigned long want = mpz_sizeinbase(a, 2);   // 1 for zero, as the repository's intLength(0)
    if ((unsigned long)bintLength(A) != want) fail("bintLength", "wrong", args + "\ngot=" + std::to_string(bintLength(A)));
    if ((unsigned long)fiBIntLength((FiBInt)A) != want) fail("fiBIntLength", "wrong", args);
    break; }
  case OP_BIT: {
    unsigned long ix = (unsigned long)labs(n) % (mpz_sizeinbase(a, 2) + 70);
    mpz_abs(t, a);   // sign-magnitude: bit ix of |a|
    bool want = mpz_tstbit(t, ix);
    if ((bool)bintBit(A, ix) != want) fail("bintBit", "wrong", args + "\nix=" + std::to_string(ix));
    if (mpz_sgn(a) >= 0) {


    }
    break; }
  case OP_SHIFT: {
    long s = n % 4200;
    if (s >= 0) mpz_mul_2exp(w, a, s); else mpz_tdiv_q_2exp(w, a, -s);
    expect("bintShift", bintShift(A, (int)s), w, args + "\ns=" + std::to_string(s));
    if (s >= 0) expect("fiBIntShiftUp", (BInt)fiBIntShiftUp((FiBInt)A, s), w, args);
    else expect("fiBIntShiftDn", (BInt)fiBIntShiftDn((FiBInt)A, -s), w, args);
    break; }
  case OP_SHIFTREM: {
    // domain: allocated non-negative value, 1 <= k < length, k not a multiple of the digit width
    if (mpz_sgn(a) <= 0 || bintIsSmall(A)) { ok = false; break; }
    unsigned long len = mpz_sizeinbase(a, 2);
    unsigned long k = 1 + (unsigned long)labs(n) % (len - 1);

    mpz_fdiv_r_2exp(w, a, k);
    expect("bintShiftRem", bintShiftRem(A, (int)k), w, args + "\nk=" + std::to_string(k));
    break; }
  case OP_SMALL: {
    long v = n;
    mpz_set_si(w, v);
    BInt r = bintNew(v);
    if (bintIsSmall(r) && bintSmall(r) != v) fail("bintSmall", "wrong", args);
    if ((long)fiBIntToSInt((FiBInt)r) != v && v != LONG_MIN) fail("fiBIntToSInt", "wrong", args + "\ngot=" + std::to_string((long)fiBIntToSInt((FiBInt)r)));
    expect("bintNew", r, w, args);
    expect("fiSIntToBInt", (BInt)fiSIntToBInt((FiSInt)v), w, args);
    if (mpz_fits_slong_p(a) && mpz_get_si(a) != LONG_MIN) {
      if ((long)fiBIntToSInt((FiBInt)A) != mpz_get_si(a)) fail("fiBIntToSInt", "wrong", args);
    }
    if ((bool)fiBIntIsSingle((FiBInt)A) != (mpz_sizeinbase(a, 2) < 64)) fail("fiBIntIsSingle", "wrong", args);
    break; }
  case OP_XINT: {   // operand-consuming variants
    mpz_add(w, a, b); expect("xintPlus", xintPlus(bintCopy(A), bintCopy(B)), w, args);
    mpz_sub(w, a, b); expect("xintMinus", xintMinus(bintCopy(A), bintCopy(B)), w, args);
    mpz_mul(w, a, b); expect("xintTimes", xintTimes(bintCopy(A), bintCopy(B)), w, args);
    mpz_neg(w, a); expect("xintNegate", xintNegate(bintCopy(A)), w, args);
    if (mpz_sgn(b) != 0) {
      mpz_tdiv_qr(w, w2, a, b); BInt r = 0; BInt q = xintDivide(&r, bintCopy(A), bintCopy(B));
      expect("xintDivide.quo", q, w, args); expect("xintDivide.rem", r, w2, args);
    }
    long s = n % 300;
    if (s >= 0) mpz_mul_2exp(w, a, s); else mpz_tdiv_q_2exp(w, a, -s);
    expect("xintShift", xintShift(bintCopy(A), (int)s), w, args + "\ns=" + std::to_string(s));
    break; }
  case OP_DIVS: {
    unsigned long d = (unsigned long)labs(n) % 0xFFFFFFFFUL; if (d == 0) d = 1;
    if (bintIsSmall(A) || mpz_sgn(a) < 0) { ok = false; break; }
    BInt q = bintAllocPlaces(mpz_size(a) * 2 + 2); BIntS r = 0;
    iintDivideS(q, &r, A, (BIntS)d);
    mpz_tdiv_q_ui(w, a, d); unsigned long wr = mpz_tdiv_ui(a, d);
    expect("iintDivideS.quo", q, w, args + "\nd=" + std::to_string(d), false);
    if ((unsigned long)r != wr) fail("iintDivideS.rem", "wrong", args + "\nd=" + std::to_string(d));
    break; }
  }
  // operands must be unchanged by non-consuming operations
  if (ok) { expect("operand-after", A, a, args); expect("operand-after", B, b, args); }
  if (ok) {
    g_stats.evals++; g_stats.per_op[op]++;
    if ((g_stats.evals & 0x3fff) == 0) { extern void dump_stats(); dump_stats(); }
    bool alloc = !fits_immediate(a) || !fits_immediate(b);
    if (alloc && !(op == OP_CMP && mpz_cmp(a, b) == 0)) g_stats.nontrivial++;
  } else g_stats.domain_skipped++;
  gA = gB = 0; bintFree(A); bintFree(B);
  mpz_clear(w); mpz_clear(w2); mpz_clear(t);
  return ok;
}
