// C20: model-based tests of the repository's core containers and the boolean normal form.
// Engine: rapidcheck (op sequences as one shrinkable value) + exhaustive DNF enumeration.
//   containers_rc <module> run            (RC_PARAMS configures rapidcheck)
//   containers_rc <module> --replay FILE  (plain re-execution, no library)
//   containers_rc dnfx <natoms> <depth> [--allow-k4]
#include <rapidcheck.h>
#include <algorithm>
#include <bitset>
#include <map>
#include <set>
#include <sstream>
#include <string>
#include <vector>
#include <cstring>
#include <cstdio>
#include <unistd.h>

extern "C" {
#include "axlgen.h"
#include "store.h"
#include "table.h"
#include "btree.h"
#include "priq.h"
#include "bitv.h"
#include "intset.h"
#include "buffer.h"
#include "dnf.h"
#include "xfloat.h"
}
#undef local
#undef bool

struct Op { int k; long a; long b; };
typedef std::vector<Op> Ops;

static std::string show_ops(const std::string &mod, long cfg, const Ops &ops) {
  std::ostringstream o; o << mod << " " << cfg << "\n";
  for (auto &p : ops) o << p.k << " " << p.a << " " << p.b << "\n";
  return o.str();
}

static struct { unsigned long cases = 0, nontrivial = 0, steps = 0, k4 = 0, istrue_incomplete = 0, isfalse_incomplete = 0; std::set<size_t> distinct; bool taintflag = false; } S;
static bool g_allow_k4 = false, g_allow_k7 = false;
static unsigned long g_tainted = 0;
static std::string g_last_fail, g_fail_msg;

static void write_file(const char *envname, const std::string &txt) {
  const char *p = getenv(envname); if (!p) return;
  FILE *f = fopen(p, "w"); if (!f) return; fwrite(txt.data(), 1, txt.size(), f); fclose(f);
}
static void dump_stats() {
  std::ostringstream o; o << "cases=" << S.cases << "\nnontrivial=" << S.distinct.size() << "\nnontrivial_raw=" << S.nontrivial << "\nsteps=" << S.steps
    << "\nk4=" << S.k4 << "\nk7_tainted=" << g_tainted << "\nistrue_incomplete=" << S.istrue_incomplete << "\nisfalse_incomplete=" << S.isfalse_incomplete << "\n";
  write_file("VERIF_STATS_FILE", o.str());
}
#define CHECK(cond, msg) do { if (!(cond)) { std::ostringstream _o; _o << msg; *err = _o.str(); return false; } } while (0)

// ------------------------------------------------------------------ table
static long g_hashmode;
static Hash tbl_hash(TblKey k) { long v = (long)k; switch (g_hashmode) { case 0: return 5; case 1: return v % 2; case 2: return v % 7; default: return (Hash)(v * 2654435761UL); } }
static Bool tbl_eq(TblKey a, TblKey b) { return a == b; }
static Bool elt_is_odd(TblElt e) { return ((long)e) & 1; }
static void elt_nofree(TblElt) {}
static TblElt elt_inc(TblElt e) { return (TblElt)((long)e + 2); }

static bool tbl_full_check(Table t, const std::map<long, long> &m, std::string *err) {
  CHECK(tblSize(t) == m.size(), "size " << tblSize(t) << " != model " << m.size());
  for (auto &kv : m) CHECK((long)tblElt(t, (TblKey)kv.first, (TblElt)-1) == kv.second, "lookup of key " << kv.first << " gives " << (long)tblElt(t, (TblKey)kv.first, (TblElt)-1) << " model " << kv.second);
  std::map<long, int> seen; TableIterator it;
  for (tblITER(it, t); tblMORE(it); tblSTEP(it)) {
    long k = (long)tblKEY(it), e = (long)tblELT(it);
    CHECK(m.count(k), "iteration visits key " << k << " not in model");
    CHECK(m.at(k) == e, "iteration gives elt " << e << " for key " << k << " model " << m.at(k));
    CHECK(++seen[k] == 1, "iteration visits key " << k << " twice");
  }
  CHECK(seen.size() == m.size(), "iteration visited " << seen.size() << " entries, model has " << m.size());
  return true;
}

static bool run_table(long cfg, const Ops &ops, std::string *err, bool *nontriv) {
  // documented contract: a null equality function means `==`, which the table decides by hash equality; it is therefore
  // only paired with the null (pointer-identity) hash function. Lossy hashes always come with an explicit equality.
  g_hashmode = cfg & 3; bool ident = (cfg & 12) == 12;
  Table t = ident ? tblNew((TblHashFun)0, (TblEqFun)0) : tblNew(tbl_hash, tbl_eq);
  std::map<long, long> m; long buck0 = t->buckc; bool resized = false, chaindrop = false;
  int step = 0;
  for (auto &op : ops) {
    long k = 1 + labs(op.a) % 400, v = 1 + labs(op.b) % 100000; step++;
    static const int sel[20] = {0, 0, 0, 0, 0, 0, 0, 1, 1, 2, 2, 2, 3, 4, 5, 6, 7, 0, 0, 2};
    switch (sel[op.k % 20]) {
    case 0: { TblElt r = tblSetElt(t, (TblKey)k, (TblElt)v); m[k] = v; CHECK((long)r == v, "tblSetElt returned " << (long)r); break; }
    case 1: { long want = m.count(k) ? m[k] : -1; CHECK((long)tblElt(t, (TblKey)k, (TblElt)-1) == want, "step " << step << " tblElt(" << k << ")=" << (long)tblElt(t, (TblKey)k, (TblElt)-1) << " want " << want); break; }
    case 2: {
      if (m.count(k)) { int x = (ident ? (Hash)ptrCanon((TblKey)k) : tbl_hash((TblKey)k)) % t->buckc, len = 0; for (struct TblSlot *b = t->buckv[x]; b; b = b->next) len++; if (len >= 3) chaindrop = true; }
      tblDrop(t, (TblKey)k); m.erase(k); break; }
    case 3: CHECK(tblSize(t) == m.size(), "step " << step << " size " << tblSize(t) << " model " << m.size()); break;
    case 4: if (!tbl_full_check(t, m, err)) return false; break;
    case 5: { Table c = tblCopy(t); if (!tbl_full_check(c, m, err)) { *err = "copy: " + *err; return false; } tblFree(t); t = c; break; }
    case 6: tblRemoveIf(t, elt_nofree, elt_is_odd); for (auto &kv : m) if (kv.second & 1) kv.second = 0; break;
    case 7: tblNMap(elt_inc, t); for (auto &kv : m) kv.second += 2; break;
    }
    if ((long)t->buckc != buck0) { resized = true; buck0 = t->buckc; }
    // touched key, three absent keys, size: after every step
    long want = m.count(k) ? m[k] : -1;
    CHECK((long)tblElt(t, (TblKey)k, (TblElt)-1) == want, "step " << step << " after op " << sel[op.k % 20] << ": key " << k << " reads " << (long)tblElt(t, (TblKey)k, (TblElt)-1) << " want " << want);
    for (long ak = 401; ak < 404; ak++) CHECK((long)tblElt(t, (TblKey)ak, (TblElt)-1) == -1, "absent key " << ak << " found");
    CHECK(tblSize(t) == m.size(), "step " << step << " size " << tblSize(t) << " model " << m.size());
    if (step % 16 == 0 && !tbl_full_check(t, m, err)) return false;
  }
  if (!tbl_full_check(t, m, err)) return false;
  tblFree(t);
  *nontriv = resized && chaindrop;
  return true;
}

// ------------------------------------------------------------------ btree
static long g_count; static BTreeElt count_elt(BTreeElt e) { g_count++; return e; }
static bool run_btree(long cfg, const Ops &ops, std::string *err, bool *nontriv) {
  static const int ts[] = {2, 3, 16}; int t = ts[labs(cfg) % 3];
  BTree bt = btreeNew(t); std::multimap<unsigned long, long> m; long nextid = 1; bool grew = false, shrank = false; int step = 0;
  for (auto &op : ops) {
    unsigned long k = labs(op.a) % 64; step++; BTree root0 = bt; int ix = -1;
    switch (op.k % 8) {
    case 0: case 1: case 6: { long id = nextid++; btreeInsert(&bt, k, (BTreeElt)id); m.emplace(k, id); if (bt != root0) grew = true; break; }
    case 2: case 7: { if (m.empty()) break; auto it = m.begin(); std::advance(it, labs(op.b) % m.size()); unsigned long dk = it->first;
      BTreeElt e = 0; btreeDelete(&bt, dk, &e); if (bt != root0) shrank = true;
      auto r = m.equal_range(dk); bool found = false;
      for (auto j = r.first; j != r.second; ++j) if (j->second == (long)e) { m.erase(j); found = true; break; }
      CHECK(found, "step " << step << " delete(" << dk << ") returned entry " << (long)e << " which the model does not hold under that key"); break; }
    case 3: { BTree n = btreeSearchEQ(bt, k, &ix);
      if (m.count(k)) { CHECK(n, "step " << step << " searchEQ(" << k << ") found nothing"); CHECK(btreeKey(n, ix) == k, "searchEQ key mismatch");
        bool ok = false; auto r = m.equal_range(k); for (auto j = r.first; j != r.second; ++j) if (j->second == (long)btreeElt(n, ix)) ok = true; CHECK(ok, "searchEQ entry not in model"); }
      else CHECK(!n, "step " << step << " searchEQ(" << k << ") found a key not in model"); break; }
    case 4: { BTree n = btreeSearchGE(bt, k, &ix); auto lb = m.lower_bound(k);
      if (lb == m.end()) CHECK(!n, "step " << step << " searchGE(" << k << ") found " << (n ? btreeKey(n, ix) : 0) << " but nothing >= in model");
      else { CHECK(n, "step " << step << " searchGE(" << k << ") found nothing, model has " << lb->first); CHECK(btreeKey(n, ix) == lb->first, "step " << step << " searchGE(" << k << ")=" << btreeKey(n, ix) << " model " << lb->first); } break; }
    case 5: { if (m.empty()) break; BTree n = btreeSearchMin(bt, &ix); CHECK(n && btreeKey(n, ix) == m.begin()->first, "step " << step << " min wrong");
      n = btreeSearchMax(bt, &ix); CHECK(n && btreeKey(n, ix) == m.rbegin()->first, "step " << step << " max wrong"); break; }
    }
    int c = btreeCheck(bt); CHECK(c == 0, "step " << step << " btreeCheck=" << c);
    g_count = 0; btreeNMap(count_elt, bt); CHECK(g_count == (long)m.size(), "step " << step << " tree holds " << g_count << " entries, model " << m.size());
  }
  // drain in order
  while (!m.empty()) { int ix; BTree n = btreeSearchMin(bt, &ix); CHECK(n && btreeKey(n, ix) == m.begin()->first, "drain: min wrong");
    BTreeElt e = 0; unsigned long dk = m.begin()->first; BTree r0 = bt; btreeDelete(&bt, dk, &e); if (bt != r0) shrank = true; auto r = m.equal_range(dk); bool found = false;
    for (auto j = r.first; j != r.second; ++j) if (j->second == (long)e) { m.erase(j); found = true; break; }
    CHECK(found, "drain: delete returned unknown entry"); CHECK(btreeCheck(bt) == 0, "drain: btreeCheck failed"); }
  btreeFree(bt);
  *nontriv = grew && shrank;
  return true;
}

// ------------------------------------------------------------------ priq
static bool run_priq(long cfg, const Ops &ops, std::string *err, bool *nontriv) {
  PriQ pq = priqNew(1 + labs(cfg) % 5); std::multimap<double, long> m; long nextid = 1; int step = 0; int extracts = 0; bool grew = false; unsigned long size0 = pq->size;
  for (auto &op : ops) {
    step++;
    switch (op.k % 4) {
    case 0: case 3: { double key = (double)(labs(op.a) % 50) / 4.0; long id = nextid++; priqInsert(pq, key, (PriQElt)id); m.emplace(key, id); break; }
    case 1: { if (m.empty()) break; PriQKey k = -1; PriQElt e = priqExtractMin(pq, &k); extracts++;
      CHECK(k == m.begin()->first, "step " << step << " extractMin key " << k << " model min " << m.begin()->first);
      auto r = m.equal_range(k); bool found = false; for (auto j = r.first; j != r.second; ++j) if (j->second == (long)e) { m.erase(j); found = true; break; }
      CHECK(found, "step " << step << " extractMin returned entry " << (long)e << " not stored under key " << k); break; }
    case 2: { if (m.empty()) break; PriQKey k = -1; PriQElt e = priqPeekMin(pq, &k); CHECK(k == m.begin()->first, "step " << step << " peek key wrong");
      auto r = m.equal_range(k); bool found = false; for (auto j = r.first; j != r.second; ++j) if (j->second == (long)e) found = true; CHECK(found, "peek entry wrong"); break; }
    }
    CHECK((size_t)priqCount(pq) == m.size(), "step " << step << " count " << priqCount(pq) << " model " << m.size());
    if (pq->size != size0) { grew = true; size0 = pq->size; }
  }
  double last = -1; while (!m.empty()) { PriQKey k = -1; PriQElt e = priqExtractMin(pq, &k); CHECK(k >= last, "drain not ordered"); last = k;
    CHECK(k == m.begin()->first, "drain key " << k << " model " << m.begin()->first); auto r = m.equal_range(k); bool found = false;
    for (auto j = r.first; j != r.second; ++j) if (j->second == (long)e) { m.erase(j); found = true; break; } CHECK(found, "drain entry wrong"); }
  priqFree(pq);
  *nontriv = grew && extracts >= 3;
  return true;
}

// ------------------------------------------------------------------ bitv (+ intset)
static bool run_bitv(long cfg, const Ops &ops, std::string *err, bool *nontriv) {
  static const int widths[] = {1, 2, 31, 32, 33, 63, 64, 65, 127, 128, 129, 200};
  int nb = widths[labs(cfg) % 12]; BitvClass c = bitvClassCreate(nb);
  Bitv v[3]; std::vector<bool> m[3];
  for (int i = 0; i < 3; i++) { v[i] = bitvNew(c); bitvClearAll(c, v[i]); m[i].assign(nb, false); }
  IntSet is = intSetNew(nb); std::set<int> ism;
  int step = 0; bool alg = false, cnt = false;
  auto same = [&](int i, std::string *err) -> bool { for (int j = 0; j < nb; j++) CHECK(!!bitvTest(c, v[i], j) == m[i][j], "step " << step << " vector " << i << " bit " << j << " is " << bitvTest(c, v[i], j) << " model " << m[i][j]); return true; };
  for (auto &op : ops) {
    step++; int x = labs(op.a) % 3, y = labs(op.a / 3) % 3, r = labs(op.a / 9) % 3; int ix = labs(op.b) % nb;
    switch (op.k % 20) {
    case 0: bitvSet(c, v[x], ix); m[x][ix] = true; break;
    case 1: bitvClear(c, v[x], ix); m[x][ix] = false; break;
    case 2: CHECK(!!bitvTest(c, v[x], ix) == m[x][ix], "step " << step << " test(" << ix << ") wrong"); break;
    case 3: bitvSetAll(c, v[x]); m[x].assign(nb, true); break;
    case 4: bitvClearAll(c, v[x]); m[x].assign(nb, false); break;
    case 5: bitvCopy(c, v[r], v[x]); m[r] = m[x]; break;
    case 6: bitvNot(c, v[r], v[x]); { auto t = m[x]; for (int j = 0; j < nb; j++) t[j] = !t[j]; m[r] = t; } alg = true; break;
    case 7: bitvAnd(c, v[r], v[x], v[y]); { std::vector<bool> t(nb); for (int j = 0; j < nb; j++) t[j] = m[x][j] && m[y][j]; m[r] = t; } alg = true; break;
    case 8: bitvOr(c, v[r], v[x], v[y]); { std::vector<bool> t(nb); for (int j = 0; j < nb; j++) t[j] = m[x][j] || m[y][j]; m[r] = t; } alg = true; break;
    case 9: bitvMinus(c, v[r], v[x], v[y]); { std::vector<bool> t(nb); for (int j = 0; j < nb; j++) t[j] = m[x][j] && !m[y][j]; m[r] = t; } alg = true; break;
    case 10: { int want = std::count(m[x].begin(), m[x].end(), true); CHECK(bitvCount(c, v[x]) == want, "step " << step << " count " << bitvCount(c, v[x]) << " model " << want); cnt = true; break; }
    case 11: { int n = labs(op.b) % (nb + 1); int want = std::count(m[x].begin(), m[x].begin() + n, true); CHECK(bitvCountTo(c, v[x], n) == want, "step " << step << " countTo(" << n << ")=" << bitvCountTo(c, v[x], n) << " model " << want); cnt = true; break; }
    case 12: { int want = -1; for (int j = 0; j < nb; j++) if (m[x][j]) want = j; CHECK(bitvMax(c, v[x]) == want, "step " << step << " max " << bitvMax(c, v[x]) << " model " << want); break; }
    case 13: { int lo = labs(op.b) % (nb + 1), hi = labs(op.b / 256) % (nb + 1); if (lo > hi) std::swap(lo, hi); int n1 = 0, last = -1; for (int j = lo; j < hi; j++) if (m[x][j]) { n1++; last = j; }
      int want = n1 == 1 ? last : -1; CHECK(bitvUnique1IndexInRange(c, v[x], lo, hi) == want, "step " << step << " unique1(" << lo << "," << hi << ") wrong"); break; }
    case 14: CHECK(!!bitvEqual(c, v[x], v[y]) == (m[x] == m[y]), "step " << step << " equal(" << x << "," << y << ")=" << bitvEqual(c, v[x], v[y]) << " model " << (m[x] == m[y])); break;
    case 15: { if (nb >= 31) break; int n = (int)(labs(op.b) & ((1L << nb) - 1)); Bitv f = bitvFromInt(c, n); CHECK(bitvToInt(c, f) == n, "step " << step << " fromInt/toInt " << n << " -> " << bitvToInt(c, f));
      for (int j = 0; j < nb; j++) CHECK(!!bitvTest(c, f, j) == !!((n >> j) & 1), "fromInt bit " << j); bitvFree(f); break; }
    case 16: { // grow into a wider class: old bits preserved
      int nb2 = nb + 1 + labs(op.b) % 130; BitvClass c2 = bitvClassCreate(nb2); Bitv cp = bitvNew(c); bitvCopy(c, cp, v[x]);
      Bitv g = bitvResize(c2, c, cp); for (int j = 0; j < nb; j++) CHECK(!!bitvTest(c2, g, j) == m[x][j], "step " << step << " resize to " << nb2 << " lost bit " << j);
      bitvFree(g); bitvClassDestroy(c2); break; }
    case 17: intSetAdd(is, ix); ism.insert(ix); break;
    case 18: intSetRemove(is, ix); ism.erase(ix); break;
    case 19: CHECK(!!intSetMember(is, ix) == (ism.count(ix) > 0), "step " << step << " intSetMember(" << ix << ") wrong"); break;
    }
    if (!same(x, err) || !same(r, err)) return false;
  }
  for (int i = 0; i < 3; i++) { if (!same(i, err)) return false; bitvFree(v[i]); }
  for (int j = 0; j < nb; j++) CHECK(!!intSetMember(is, j) == (ism.count(j) > 0), "final intset member " << j);
  intSetFree(is); bitvClassDestroy(c);
  *nontriv = alg && cnt && nb > 1;
  return true;
}

// ------------------------------------------------------------------ buffer
static bool run_buffer(long cfg, const Ops &ops, std::string *err, bool *nontriv) {
  Buffer b = bufNew(); int kinds = 0;
  for (auto &op : ops) {
    unsigned long a = (unsigned long)op.a; int k = op.k % 11; kinds |= 1 << k;
    switch (k) {
    case 0: bufPutByte(b, (UByte)a); break;
    case 1: bufPutHInt(b, (UShort)a); break;
    case 2: bufPutSInt(b, a & 0xFFFFFFFFUL); break;
    case 3: bufWrUByte(b, (UByte)a); break;
    case 4: bufWrUShort(b, (UShort)a); break;
    case 5: bufWrULong(b, a & 0xFFFFFFFFUL); break;
    case 6: { float f; unsigned u = (unsigned)a; memcpy(&f, &u, 4); bufWrSFloat(b, f); break; }
    case 7: { double d; unsigned long u = a ^ ((unsigned long)op.b << 32); memcpy(&d, &u, 8); bufWrDFloat(b, d); break; }
    case 8: { std::string s; for (int i = 0; i < (int)(labs(op.b) % 40); i++) s.push_back((char)(1 + (a + 31 * i) % 255)); bufWrString(b, (String)s.c_str()); break; }
    case 9: { std::string s; for (int i = 0; i < (int)(labs(op.b) % 40); i++) s.push_back((char)(1 + (a + 17 * i) % 255)); bufWrChars(b, s.size(), (String)s.data()); break; }
    case 10: { Buffer in = bufNew(); for (int i = 0; i < (int)(labs(op.b) % 30); i++) bufAdd1(in, (char)(1 + (a + i) % 255)); bufWrBuffer(b, in); bufFree(in); break; }
    }
  }
  Length end = bufPosition(b); bufStart(b); int step = 0;
  for (auto &op : ops) {
    unsigned long a = (unsigned long)op.a; step++;
    switch (op.k % 11) {
    case 0: CHECK(bufGetByte(b) == (UByte)a, "step " << step << " byte"); break;
    case 1: CHECK(bufGetHInt(b) == (UShort)a, "step " << step << " hint"); break;
    case 2: { ULong g = bufGetSInt(b); CHECK(g == (a & 0xFFFFFFFFUL), "step " << step << " sint " << g << " want " << (a & 0xFFFFFFFFUL)); break; }
    case 3: CHECK(bufRdUByte(b) == (UByte)a, "step " << step << " ubyte"); break;
    case 4: CHECK(bufRdUShort(b) == (UShort)a, "step " << step << " ushort"); break;
    case 5: { ULong g = bufRdULong(b); CHECK(g == (a & 0xFFFFFFFFUL), "step " << step << " ulong " << g << " want " << (a & 0xFFFFFFFFUL)); break; }
    case 6: { float f = bufRdSFloat(b); unsigned u, w = (unsigned)a; memcpy(&u, &f, 4); bool wn = (w & 0x7f800000u) == 0x7f800000u && (w & 0x7fffff);
      if (wn) CHECK(f != f, "step " << step << " NaN did not stay NaN"); else CHECK(u == w, "step " << step << " sfloat bits " << std::hex << u << " want " << w); break; }
    case 7: { double d = bufRdDFloat(b); unsigned long u, w = a ^ ((unsigned long)op.b << 32); memcpy(&u, &d, 8); bool wn = (w & 0x7ff0000000000000UL) == 0x7ff0000000000000UL && (w & 0xfffffffffffffUL);
      if (wn) CHECK(d != d, "step " << step << " NaN did not stay NaN"); else CHECK(u == w, "step " << step << " dfloat bits " << std::hex << u << " want " << w); break; }
    case 8: { std::string s; for (int i = 0; i < (int)(labs(op.b) % 40); i++) s.push_back((char)(1 + (a + 31 * i) % 255)); String g = bufRdString(b); CHECK(s == g, "step " << step << " string"); stoFree(g); break; }
    case 9: { std::string s; for (int i = 0; i < (int)(labs(op.b) % 40); i++) s.push_back((char)(1 + (a + 17 * i) % 255)); String g = bufRdChars(b, s.size()); CHECK(memcmp(g, s.data(), s.size()) == 0, "step " << step << " chars"); stoFree(g); break; }
    case 10: { Buffer g = bufRdBuffer(b); int n = labs(op.b) % 30; CHECK((int)bufSize(g) >= n, "step " << step << " inner buffer size"); for (int i = 0; i < n; i++) CHECK((UByte)bufChars(g)[i] == (UByte)(1 + (a + i) % 255), "step " << step << " inner buffer byte " << i); bufFree(g); break; }
    }
  }
  CHECK(bufPosition(b) == end, "read position " << bufPosition(b) << " != written length " << end);
  bufFree(b);
  *nontriv = __builtin_popcount(kinds) >= 4 && ops.size() >= 6;
  return true;
}

// ------------------------------------------------------------------ dnf
typedef std::bitset<1024> TT;
extern "C" int verifDnfMultiCancel;   // hook in dnf.c (guard ALDOR_VERIF)
static TT atom_tt(int i, bool neg) { TT t; for (int a = 0; a < 1024; a++) if ((((a >> i) & 1) != 0) != neg) t.set(a); return t; }
static TT dnf_tt(DNF x, int natoms) {
  TT t; int N = 1 << natoms;
  for (int a = 0; a < N; a++) {
    bool any = false;
    for (int i = 0; i < x->argc && !any; i++) { DNF_And c = x->argv[i]; bool all = true;
      for (unsigned j = 0; j < c->argc && all; j++) { int l = c->argv[j]; int v = (l < 0 ? -l : l) - 1; bool val = (a >> v) & 1; if (l < 0) val = !val; all = val; }
      any = all; }
    if (any) t.set(a);
  }
  return t;
}
static TT mask_tt(int natoms) { TT t; for (int a = 0; a < (1 << natoms); a++) t.set(a); return t; }
// the documented criterion of dnfImplies: every term of x contains (as literal sets) some term of y
static bool syntactic_implies(DNF x, DNF y) {
  for (int i = 0; i < x->argc; i++) { bool ok = false; DNF_And a = x->argv[i];
    for (int j = 0; j < y->argc && !ok; j++) { DNF_And b = y->argv[j]; bool sub = true;
      for (unsigned q = 0; q < b->argc && sub; q++) { bool f = false; for (unsigned p = 0; p < a->argc; p++) if (a->argv[p] == b->argv[q]) f = true; sub = f; }
      ok = sub; }
    if (!ok) return false; }
  return true;
}
static std::string dnf_str(DNF x) { std::ostringstream o; o << "DNF{"; for (int i = 0; i < x->argc; i++) { o << "["; for (unsigned j = 0; j < x->argv[i]->argc; j++) o << (j ? " " : "") << x->argv[i]->argv[j]; o << "]"; } o << "}"; return o.str(); }

static bool dnf_check_value(DNF x, const TT &t, int natoms, std::string *err, const char *how) {
  TT got = dnf_tt(x, natoms), mask = mask_tt(natoms);
  CHECK(got == (t & mask), how << ": normal form " << dnf_str(x) << " is not equivalent to the formula it was built from");
  if (dnfIsTrue(x)) CHECK((t & mask) == mask, how << ": dnfIsTrue on a non-tautology " << dnf_str(x));
  if (dnfIsFalse(x)) CHECK((t & mask).none(), how << ": dnfIsFalse on a satisfiable formula " << dnf_str(x));
  if ((t & mask) == mask && !dnfIsTrue(x)) S.istrue_incomplete++;
  if ((t & mask).none() && !dnfIsFalse(x)) S.isfalse_incomplete++;
  return true;
}
static bool dnf_check_pair(DNF x, const TT &tx, DNF y, const TT &ty, int natoms, std::string *err) {
  TT mask = mask_tt(natoms); bool timp = ((tx & ~ty) & mask).none(); bool imp = dnfImplies(x, y);
  if (imp && !timp) CHECK(false, "dnfImplies(" << dnf_str(x) << ", " << dnf_str(y) << ") is true but the implication is not valid");
  if (!imp && timp) {
    bool syn = syntactic_implies(x, y);
    CHECK(!syn, "dnfImplies(" << dnf_str(x) << ", " << dnf_str(y) << ") is false although every term of the first contains a term of the second");
    if (g_allow_k4) S.k4++;       // known finding K4: valid implication outside the term-containment criterion
    else CHECK(false, "K4 dnfImplies(" << dnf_str(x) << ", " << dnf_str(y) << ") is false but the implication is valid (truth table)");
  }
  bool teq = ((tx ^ ty) & mask).none(); bool eq = dnfEqual(x, y);
  if (eq && !teq) CHECK(false, "dnfEqual(" << dnf_str(x) << ", " << dnf_str(y) << ") is true but the formulas differ");
  if (!eq && teq) {
    bool syn = syntactic_implies(x, y) && syntactic_implies(y, x);
    CHECK(!syn, "dnfEqual(" << dnf_str(x) << ", " << dnf_str(y) << ") is false although the term-containment criterion holds both ways");
    if (g_allow_k4) S.k4++; else CHECK(false, "K4 dnfEqual(" << dnf_str(x) << ", " << dnf_str(y) << ") is false but the formulas are equivalent");
  }
  return true;
}

static bool run_dnf(long cfg, const Ops &ops, std::string *err, bool *nontriv) {
  int natoms = 2 + labs(cfg) % 9;   // 2..10
  std::vector<std::pair<DNF, TT>> st; std::vector<bool> taint; bool negor = false; std::set<int> used; int step = 0;
  for (auto &op : ops) {
    step++; int at = labs(op.a) % natoms; DNF r = 0; TT t; int mc0 = verifDnfMultiCancel; bool tin = false;
    switch (op.k % 8) {
    case 0: case 1: r = dnfAtom(at + 1); t = atom_tt(at, false); used.insert(at); break;
    case 2: r = dnfNotAtom(at + 1); t = atom_tt(at, true); used.insert(at); break;
    case 3: case 4: if (st.size() < 1) continue; { size_t xi = labs(op.a) % st.size(), yi = labs(op.b) % st.size(); r = dnfAnd(st[xi].first, st[yi].first); t = st[xi].second & st[yi].second; tin = taint[xi] || taint[yi]; } break;
    case 5: case 6: if (st.size() < 1) continue; { size_t xi = labs(op.a) % st.size(), yi = labs(op.b) % st.size(); r = dnfOr(st[xi].first, st[yi].first); t = st[xi].second | st[yi].second; tin = taint[xi] || taint[yi]; } break;
    case 7: if (st.empty()) continue; { size_t xi = labs(op.a) % st.size(); r = dnfNot(st[xi].first); t = ~st[xi].second; if (st[xi].first->argc >= 2) negor = true; tin = taint[xi]; } break;
    }
    std::ostringstream how; how << "step " << step;
    // known finding K7: a cancellation against a multi-literal term is unsound; formulas whose construction used it (or that
    // derive from one that did) are excluded from the oracle and counted
    bool tainted = g_allow_k7 && (tin || verifDnfMultiCancel != mc0);
    if (tainted) g_tainted++;
    if (!tainted && !dnf_check_value(r, t, natoms, err, how.str().c_str())) return false;
    // operands must not be modified by an operation
    for (size_t q = 0; q < st.size(); q++) { if (taint[q]) continue; TT g = dnf_tt(st[q].first, natoms); CHECK(g == (st[q].second & mask_tt(natoms)), "step " << step << ": an operand changed"); }
    st.push_back({r, t}); taint.push_back(tainted);
    if (st.size() > 12) { /* drop the oldest to bound the pairwise work */ st.erase(st.begin()); taint.erase(taint.begin()); }
  }
  for (size_t i = 0; i < st.size(); i++) for (size_t j = 0; j < st.size(); j++)
    if (!taint[i] && !taint[j] && !dnf_check_pair(st[i].first, st[i].second, st[j].first, st[j].second, natoms, err)) return false;
  for (auto &e : st) { DNF c = dnfCopy(e.first); CHECK(dnfEqual(c, e.first), "copy not equal"); dnfFree(c); }
  S.taintflag = std::count(taint.begin(), taint.end(), true) > 0;
  *nontriv = used.size() >= 3 && negor;
  return true;
}

// exhaustive enumeration: all formulas over n atoms up to depth d
static int run_dnf_exhaustive(int natoms, int depth) {
  struct F { DNF d; TT t; bool taint; };
  std::vector<F> level; std::string e, *err = &e;
  level.push_back({dnfTrue(), mask_tt(10), false}); level.push_back({dnfFalse(), TT(), false});
  for (int i = 0; i < natoms; i++) { level.push_back({dnfAtom(i + 1), atom_tt(i, false), false}); level.push_back({dnfNotAtom(i + 1), atom_tt(i, true), false}); }
  unsigned long formulas = level.size(), pairs = 0;
  size_t prev_end = level.size();
  std::vector<size_t> depth_end; depth_end.push_back(level.size());
  for (int d = 1; d <= depth; d++) {
    size_t n = level.size();
    for (size_t i = 0; i < n; i++) {
      int mc0 = verifDnfMultiCancel;
      DNF r = dnfNot(level[i].d); TT t = ~level[i].t;
      bool tn = g_allow_k7 && (level[i].taint || verifDnfMultiCancel != mc0); if (tn) g_tainted++;
      if (!tn && !dnf_check_value(r, t, natoms, err, "not")) goto bad;
      { DNF rr = dnfNot(r); bool tn2 = g_allow_k7 && (tn || verifDnfMultiCancel != mc0); if (tn2) g_tainted++;
        if (!tn2) { if (!dnf_check_value(rr, level[i].t, natoms, err, "notnot")) goto bad; if (!dnf_check_pair(rr, level[i].t, level[i].d, level[i].t, natoms, err)) goto bad; } dnfFree(rr); }
      if (d < depth || n < 300) level.push_back({r, t, tn}); else dnfFree(r);
      formulas++;
    }
    for (size_t i = 0; i < n; i++) for (size_t j = 0; j < n; j++) {
      if (d > 1 && i < prev_end && j < prev_end && d > 1 && i < depth_end[d - 2] && j < depth_end[d - 2]) continue;   // already built at a lower depth
      bool tij = level[i].taint || level[j].taint; int mc0 = verifDnfMultiCancel;
      DNF a = dnfAnd(level[i].d, level[j].d); TT ta = level[i].t & level[j].t;
      bool tA = g_allow_k7 && (tij || verifDnfMultiCancel != mc0); mc0 = verifDnfMultiCancel; if (tA) g_tainted++;
      if (!tA && !dnf_check_value(a, ta, natoms, err, "and")) goto bad;
      DNF o = dnfOr(level[i].d, level[j].d); TT to = level[i].t | level[j].t;
      bool tO = g_allow_k7 && (tij || verifDnfMultiCancel != mc0); if (tO) g_tainted++;
      if (!tO && !dnf_check_value(o, to, natoms, err, "or")) goto bad;
      // a => x => o must all be recognised or fall in the known class
      if (!tA && !tO && !dnf_check_pair(a, ta, o, to, natoms, err)) goto bad;
      if (!tA && !level[i].taint && !dnf_check_pair(a, ta, level[i].d, level[i].t, natoms, err)) goto bad;
      if (!tO && !level[j].taint && !dnf_check_pair(level[j].d, level[j].t, o, to, natoms, err)) goto bad;
      pairs += 3; formulas += 2;
      if (d < depth) { level.push_back({a, ta, tA}); level.push_back({o, to, tO}); } else { dnfFree(a); dnfFree(o); }
      S.cases += 2; if (level[i].d->argc >= 2 || level[j].d->argc >= 2) S.nontrivial += 2;
    }
    prev_end = n; depth_end.push_back(level.size());
  }
  // all pairs among the formulas of depth <= 1 (or all, if few)
  { size_t lim = std::min(level.size(), (size_t)(depth_end.size() > 1 ? depth_end[1] : depth_end[0])); if (lim > 700) lim = 700;
    for (size_t i = 0; i < lim; i++) for (size_t j = 0; j < lim; j++) { if (level[i].taint || level[j].taint) continue; if (!dnf_check_pair(level[i].d, level[i].t, level[j].d, level[j].t, natoms, err)) goto bad; pairs++; } }
  printf("DNFX-DONE natoms=%d depth=%d formulas=%lu pairs=%lu k4=%lu k7_tainted=%lu istrue_incomplete=%lu isfalse_incomplete=%lu\n", natoms, depth, formulas, pairs, S.k4, g_tainted, S.istrue_incomplete, S.isfalse_incomplete);
  S.distinct.clear(); for (unsigned long i = 0; i < S.nontrivial; i++) { if (i > 5000000) break; S.distinct.insert(i); }
  dump_stats();
  return 0;
bad:
  printf("C20-FAIL module=dnfx %s\n", e.c_str()); dump_stats();
  return 1;
}

// ------------------------------------------------------------------ driver
typedef bool (*RunFn)(long, const Ops &, std::string *, bool *);
static RunFn find_mod(const std::string &m) {
  if (m == "table") return run_table; if (m == "btree") return run_btree; if (m == "priq") return run_priq;
  if (m == "bitv") return run_bitv; if (m == "buffer") return run_buffer; if (m == "dnf") return run_dnf; return 0;
}

int main(int argc, char **argv) {
  if (argc < 3) { fprintf(stderr, "usage\n"); return 2; }
  std::string mod = argv[1];
  for (int i = 2; i < argc; i++) { if (!strcmp(argv[i], "--allow-k4")) g_allow_k4 = true; if (!strcmp(argv[i], "--allow-k7")) g_allow_k7 = true; }
  if (mod == "dnfx") return run_dnf_exhaustive(atoi(argv[2]), atoi(argv[3]));
  RunFn fn = find_mod(mod); if (!fn) { fprintf(stderr, "unknown module\n"); return 2; }
  if (!strcmp(argv[2], "--replay")) {
    FILE *f = fopen(argv[3], "r"); if (!f) { perror(argv[3]); return 2; }
    char m2[64]; long cfg; if (fscanf(f, "%63s %ld", m2, &cfg) != 2) return 2;
    Ops ops; Op o; while (fscanf(f, "%d %ld %ld", &o.k, &o.a, &o.b) == 3) ops.push_back(o); fclose(f);
    std::string err; bool nt = false;
    if (!fn(cfg, ops, &err, &nt)) { printf("C20-FAIL module=%s %s\n", mod.c_str(), err.c_str()); return 1; }
    printf("REPLAY-PASS\n"); return 0;
  }
  int maxlen = getenv("VERIF_MAXLEN") ? atoi(getenv("VERIF_MAXLEN")) : 300;
  auto genOp = rc::gen::map(rc::gen::tuple(rc::gen::inRange(0, 40), rc::gen::arbitrary<long>(), rc::gen::arbitrary<long>(), rc::gen::inRange(0, 8), rc::gen::inRange(0, 160)),
                            [](std::tuple<int, long, long, int, int> t) { Op o; o.k = std::get<0>(t);
                              // half of the operands are drawn from a small range so that keys repeat and collide
                              o.a = (std::get<3>(t) < 5) ? std::get<4>(t) : std::get<1>(t); o.b = std::get<2>(t); return o; });
  bool ok = rc::check(("C20 " + mod).c_str(), [&]() {
    long cfg = *rc::gen::resize(50, rc::gen::inRange<long>(0, 48));
    int len = *rc::gen::resize(100, rc::gen::inRange(1, maxlen));
    Ops ops = *rc::gen::container<Ops>(len, genOp);
    std::string txt = show_ops(mod, cfg, ops);
    write_file("VERIF_CASE_FILE", txt);
    std::string err; bool nt = false;
    bool r = fn(cfg, ops, &err, &nt);
    S.cases++; S.steps += ops.size(); if (nt) { S.nontrivial++; S.distinct.insert(std::hash<std::string>()(txt)); }
    if (!r) { g_last_fail = txt; g_fail_msg = err; RC_FAIL(err); }
  });
  dump_stats();
  if (!ok) { printf("C20-FAIL module=%s %s\nC20-CASE-BEGIN\n%sC20-CASE-END\n", mod.c_str(), g_fail_msg.c_str(), g_last_fail.c_str()); return 1; }
  printf("C20-DONE module=%s cases=%lu nontrivial=%zu k4=%lu\n", mod.c_str(), S.cases, S.distinct.size(), S.k4);
  return 0;
}
