// C11 libFuzzer target (structure-aware) and deterministic boundary-product driver.
//   fuzz build:     clang++ -fsanitize=fuzzer,address  (LLVMFuzzerTestOneInput)
//   product build:  -DPRODUCT_MAIN: ./bigint_product <shard> <nshards> <kmax> <kstride> | --replay file
#include "bigint_common.h"
#include <unistd.h>
#ifndef PRODUCT_MAIN
#include <fuzzer/FuzzedDataProvider.h>
#endif

Stats g_stats;
std::string g_last_case;

void dump_stats() {
  const char *p = getenv("VERIF_STATS_FILE");
  if (!p) return;
  FILE *f = fopen(p, "w");
  if (!f) return;
  fprintf(f, "evals=%lu\nnontrivial=%lu\ndomain_skipped=%lu\n", g_stats.evals, g_stats.nontrivial, g_stats.domain_skipped);
  for (int i = 0; i < OP_NOPS; i++) fprintf(f, "op_%s=%lu\n", op_names[i], g_stats.per_op[i]);
  fprintf(f, "last_case_begin\n%s\nlast_case_end\n", g_last_case.c_str());
  fclose(f);
}


static void init_once() {
  static bool done = false;
  if (done) return;
  done = true;
  atexit(dump_stats);
}

#ifndef PRODUCT_MAIN
static void decode_operand(FuzzedDataProvider &fdp, mpz_t z) {
  int shape = fdp.ConsumeIntegralInRange<int>(0, 8);
  bool neg = fdp.ConsumeBool();
  mpz_set_ui(z, 0);
  switch (shape) {
  case 0: { std::vector<uint8_t> v = fdp.ConsumeBytes<uint8_t>(fdp.ConsumeIntegralInRange<int>(0, 500));
            if (!v.empty()) mpz_import(z, v.size(), 1, 1, 0, 0, v.data()); break; }
  case 1: { int k = fdp.ConsumeIntegralInRange<int>(0, 4000); int d = fdp.ConsumeIntegralInRange<int>(-3, 3);
            mpz_ui_pow_ui(z, 2, k); if (d >= 0) mpz_add_ui(z, z, d); else mpz_sub_ui(z, z, -d); break; }
  case 2: { int m = fdp.ConsumeIntegralInRange<int>(1, 125); int d = fdp.ConsumeIntegralInRange<int>(-2, 2);
            mpz_ui_pow_ui(z, 2, 32 * m); mpz_sub_ui(z, z, 1); if (d >= 0) mpz_add_ui(z, z, d); else mpz_sub_ui(z, z, -d); break; }
  case 3: { int m = fdp.ConsumeIntegralInRange<int>(1, 125); for (int i = 0; i < m; i++) mpz_setbit(z, 32 * i + 31); break; }
  case 4: { int m = fdp.ConsumeIntegralInRange<int>(1, 125); bool odd = fdp.ConsumeBool();
            for (int i = 0; i < 32 * m; i++) if ((i & 1) == odd) mpz_setbit(z, i); break; }
  case 5: { int k = fdp.ConsumeIntegralInRange<int>(60, 65); int d = fdp.ConsumeIntegralInRange<int>(-4, 4);
            mpz_ui_pow_ui(z, 2, k); if (d >= 0) mpz_add_ui(z, z, d); else mpz_sub_ui(z, z, -d); break; }
  case 6: { mpz_set_si(z, fdp.ConsumeIntegral<int64_t>()); break; }
  case 7: { int m = fdp.ConsumeIntegralInRange<int>(1, 60);
            static const uint32_t pat[] = {0, 1, 0xFFFFFFFFu, 0x80000000u, 0x7FFFFFFFu, 0xFFFF0000u, 0x0000FFFFu, 0x00010000u};
            for (int i = 0; i < m; i++) { int s = fdp.ConsumeIntegralInRange<int>(0, 8);
              uint32_t dgt = s < 8 ? pat[s] : fdp.ConsumeIntegral<uint32_t>();
              mpz_mul_2exp(z, z, 32); mpz_add_ui(z, z, dgt); } break; }
  case 8: { mpz_set_si(z, fdp.ConsumeIntegralInRange<int>(-40, 40)); break; }
  }
  if (neg) mpz_neg(z, z);
}

extern "C" int LLVMFuzzerTestOneInput(const uint8_t *data, size_t size) {
  init_once();
  FuzzedDataProvider fdp(data, size);
  int op = fdp.ConsumeIntegralInRange<int>(0, OP_NOPS - 1);
  long n = fdp.ConsumeIntegral<int64_t>();
  if (fdp.ConsumeBool()) n = fdp.ConsumeIntegralInRange<int>(-70, 70);
  mpz_t a, b, c; mpz_init(a); mpz_init(b); mpz_init(c);
  decode_operand(fdp, a); decode_operand(fdp, b); decode_operand(fdp, c);
  if (fdp.ConsumeBool()) mpz_set(b, a);                 // aliasing-by-value cases
  check_op(op, a, b, c, n);
  if (op == OP_PLUS || op == OP_TIMES || op == OP_GCD || op == OP_CMP) check_op(op, b, a, c, n);   // commuted
  mpz_clear(a); mpz_clear(b); mpz_clear(c);
  return 0;
}
#else
// Exhaustive boundary product: all values within +-2 of 2^k, k <= kmax (stride), both signs, all pairs, all binary ops.
static int replay(const char *path) {
  FILE *f = fopen(path, "r"); if (!f) { perror(path); return 2; }
  char line[70000]; std::string op; mpz_t a, b, c; long n = 0; mpz_init(a); mpz_init(b); mpz_init(c);
  while (fgets(line, sizeof line, f)) {
    line[strcspn(line, "\n")] = 0;
    if (!strncmp(line, "op=", 3)) op = line + 3;
    else if (!strncmp(line, "a=", 2)) mpz_set_str(a, line + 2, 10);
    else if (!strncmp(line, "b=", 2)) mpz_set_str(b, line + 2, 10);
    else if (!strncmp(line, "c=", 2)) mpz_set_str(c, line + 2, 10);
    else if (!strncmp(line, "n=", 2)) n = atol(line + 2);
  }
  fclose(f);
  for (int i = 0; i < OP_NOPS; i++) if (op == op_names[i]) { check_op(i, a, b, c, n); printf("REPLAY-PASS\n"); return 0; }
  fprintf(stderr, "unknown op %s\n", op.c_str()); return 2;
}

int main(int argc, char **argv) {
  init_once();
  if (argc >= 3 && !strcmp(argv[1], "--replay")) return replay(argv[2]);
  if (argc < 5) { fprintf(stderr, "usage: %s shard nshards kmax kstride\n", argv[0]); return 2; }
  int shard = atoi(argv[1]), nsh = atoi(argv[2]), kmax = atoi(argv[3]), kstride = atoi(argv[4]);
  std::vector<std::string> vals;
  mpz_t z; mpz_init(z);
  for (int k = 0; k <= kmax; k++) {
    // always keep the digit/immediate boundaries, stride elsewhere
    bool keep = (k % kstride == 0) || (k % 32 <= 1) || (k % 32 == 31) || (k >= 60 && k <= 65) || k <= 3;
    if (!keep) continue;
    for (int d = -2; d <= 2; d++) for (int sg = 0; sg < 2; sg++) {
      mpz_ui_pow_ui(z, 2, k); if (d >= 0) mpz_add_ui(z, z, d); else mpz_sub_ui(z, z, -d);
      if (sg) mpz_neg(z, z);
      vals.push_back(zs(z));
    }
  }
  static const int binops[] = {OP_CMP, OP_PLUS, OP_MINUS, OP_TIMES, OP_DIVIDE, OP_FIQR, OP_MOD, OP_GCD, OP_XINT};
  static const int unops[] = {OP_STR, OP_RADIX, OP_NEG, OP_LENGTH, OP_BIT, OP_SHIFT, OP_SHIFTREM, OP_SMALL, OP_SIPOW};
  mpz_t a, b, c; mpz_init(a); mpz_init(b); mpz_init_set_ui(c, 97);
  size_t idx = 0;
  for (size_t i = 0; i < vals.size(); i++) {
    mpz_set_str(a, vals[i].c_str(), 10);
    if ((int)(i % nsh) == shard) {
      for (int op : unops) for (long n : {0L, 1L, 5L, 31L, 32L, 33L, 63L, 64L, -1L, -31L, -32L, -64L, 2147483647L, 4611686018427387903L, 4611686018427387904L, -4611686018427387904L})
        check_op(op, a, a, c, n);
    }
    for (size_t j = 0; j < vals.size(); j++, idx++) {
      if ((int)(idx % nsh) != shard) continue;
      mpz_set_str(b, vals[j].c_str(), 10);
      for (int op : binops) check_op(op, a, b, c, (long)(i + j) % 61 - 30);
    }
  }
  printf("PRODUCT-DONE values=%zu evals=%lu nontrivial=%lu\n", vals.size(), g_stats.evals, g_stats.nontrivial);
  return 0;
}
#endif
